package rules

import (
	"go/token"
	"go/types"
	"sort"
	"strings"

	"golang.org/x/tools/go/ssa"

	"verif/checker/internal/core"
)

// ctxTraceResult describes where a context value comes from.
type ctxTraceResult struct {
	Roots  map[string]bool // "param:<func>", "request", "background", "unknown:<desc>"
	Layers map[string]bool // deriving steps seen on some chain ("context.WithCancel", "wrap:noValuesContext", …)
	// Chains lists, per root, the layers in order from the value back to the root (first found chain).
	Chains [][]string
}

func (r *ctxTraceResult) rootList() []string {
	var out []string
	for k := range r.Roots {
		out = append(out, k)
	}
	sort.Strings(out)
	return out
}

func (r *ctxTraceResult) layerList() []string {
	var out []string
	for k := range r.Layers {
		out = append(out, k)
	}
	sort.Strings(out)
	return out
}

// isEntryFunc: exported API entry (ClientConnInterface methods) or an HTTP
// handler literal: parameters are roots.
func isEntryFunc(fn *ssa.Function) bool {
	if fn.Signature.Recv() != nil && (fn.Name() == "Invoke" || fn.Name() == "NewStream") {
		return true
	}
	if fn.Parent() != nil && fn.Signature.Params().Len() == 2 && core.TypeStr(fn.Signature.Params().At(1).Type()) == "*net/http.Request" {
		return true
	}
	return false
}

// ctxTrace follows a context value backwards through deriving calls, struct
// wrappers, phis, cells, closures, struct fields (all stores to the field in
// the package) and parameters (all call sites), up to a fixed depth.
func ctxTrace(p *core.Prog, v ssa.Value) *ctxTraceResult { return ctxTraceOpt(p, v, nil, 0) }

func ctxTraceOpt(p *core.Prog, v ssa.Value, stopFn *ssa.Function, nest int) *ctxTraceResult {
	res := &ctxTraceResult{Roots: map[string]bool{}, Layers: map[string]bool{}}
	type key struct {
		v ssa.Value
	}
	seen := map[key]bool{}
	var rec func(v ssa.Value, chain []string, depth int)
	root := func(name string, chain []string) {
		if !res.Roots[name] {
			res.Chains = append(res.Chains, append(append([]string{}, chain...), "<-"+name))
		}
		res.Roots[name] = true
	}
	rec = func(v ssa.Value, chain []string, depth int) {
		if v == nil {
			return
		}
		if depth > 40 {
			root("unknown:too-deep", chain)
			return
		}
		if seen[key{v}] {
			return
		}
		seen[key{v}] = true
		switch x := v.(type) {
		case *ssa.Const:
			if x.Value == nil {
				return // a nil context accompanies an error result; it is never used as a parent
			}
		case *ssa.Phi:
			for _, e := range x.Edges {
				rec(e, chain, depth+1)
			}
			return
		case *ssa.ChangeInterface:
			rec(x.X, chain, depth+1)
			return
		case *ssa.ChangeType:
			rec(x.X, chain, depth+1)
			return
		case *ssa.MakeInterface:
			if nt := core.NamedOf(x.X.Type()); nt != "" {
				if inner := embeddedCtx(x.X); inner != nil {
					res.Layers["wrap:"+nt] = true
					rec(inner, append(chain, "wrap:"+nt), depth+1)
					return
				}
			}
			rec(x.X, chain, depth+1)
			return
		case *ssa.FreeVar:
			r := core.ResolveFree(x)
			if r == v {
				root("unknown:freevar "+x.Name(), chain)
				return
			}
			rec(r, chain, depth+1)
			return
		case *ssa.Parameter:
			fn := x.Parent()
			if isEntryFunc(fn) || fn == stopFn {
				root("param:"+core.FuncName(fn), chain)
				return
			}
			idx := -1
			for i, pp := range fn.Params {
				if pp == x {
					idx = i
				}
			}
			n := 0
			for _, caller := range p.LibFuncs("") {
				core.Instrs(caller, func(in ssa.Instruction) {
					cc := core.CallOf(in)
					if cc == nil {
						return
					}
					ci := core.InfoOf(cc)
					target := ci.Static
					if target == nil {
						for _, o := range core.Origins(cc.Value) {
							if mc, ok := o.(*ssa.MakeClosure); ok {
								target = mc.Fn.(*ssa.Function)
							}
						}
					}
					if target == fn && idx < len(cc.Args) {
						n++
						rec(cc.Args[idx], chain, depth+1)
					}
				})
			}
			if n == 0 {
				// exported function without internal callers: its parameter is a root
				root("param:"+core.FuncName(fn), chain)
			}
			return
		case *ssa.UnOp:
			if x.Op != token.MUL {
				break
			}
			switch a := x.X.(type) {
			case *ssa.Alloc:
				sts, zero := core.ReachingStores(x)
				for _, s := range sts {
					rec(s.Val, chain, depth+1)
				}
				if zero && len(sts) == 0 {
					root("unknown:uninitialised "+a.Comment, chain)
				}
				return
			case *ssa.FreeVar:
				if al, ok := core.ResolveFree(a).(*ssa.Alloc); ok {
					for _, s := range core.VisibleStores(al, x.Parent()) {
						rec(s.Val, chain, depth+1)
					}
					return
				}
			case *ssa.FieldAddr:
				if fv := core.ForwardedFieldStore(x, a); fv != nil {
					rec(fv, chain, depth+1)
					return
				}
				// all stores to this field in the library
				tn := core.QualNamedOf(a.X.Type())
				st := derefStructT(a.X.Type())
				if st == nil || tn == "" {
					root("unknown:field", chain)
					return
				}
				fname := core.FieldName(st, a.Field)
				n := 0
				for _, fn := range p.LibFuncs("") {
					core.Instrs(fn, func(in ssa.Instruction) {
						s, ok := in.(*ssa.Store)
						if !ok {
							return
						}
						fa2, ok := s.Addr.(*ssa.FieldAddr)
						if !ok || core.QualNamedOf(fa2.X.Type()) != tn {
							return
						}
						if st2 := derefStructT(fa2.X.Type()); st2 != nil && core.FieldName(st2, fa2.Field) == fname {
							n++
							rec(s.Val, chain, depth+1)
						}
					})
				}
				if n == 0 {
					root("unknown:field "+strings.TrimPrefix(tn, core.ModulePath+"/")+"."+fname+" never stored", chain)
				}
				return
			}
		case *ssa.Extract:
			if call, ok := x.Tuple.(*ssa.Call); ok && x.Index == 0 {
				traceCall(p, call, chain, depth, res, rec, root, nest)
				return
			}
		case *ssa.Call:
			traceCall(p, x, chain, depth, res, rec, root, nest)
			return
		}
		root("unknown:"+core.ValName(v), chain)
	}
	rec(v, nil, 0)
	return res
}

func traceCall(p *core.Prog, call *ssa.Call, chain []string, depth int, res *ctxTraceResult,
	rec func(ssa.Value, []string, int), root func(string, []string), nest int) {
	ci := core.InfoOf(&call.Call)
	full := ci.Full()
	switch full {
	case "context.Background", "context.TODO":
		root("background", chain)
		return
	case "net/http.Request.Context":
		root("request", chain)
		return
	}
	if nxt, name, ok := ctxDeriving(call); ok {
		short := strings.TrimPrefix(name, core.ModulePath+"/")
		// repo function: look inside (its result derives from its ctx parameter through its own layers)
		if ci.Static != nil && ci.Static.Blocks != nil && strings.HasPrefix(ci.Pkg, core.ModulePath) {
			for _, r := range core.Returns(ci.Static) {
				if nest > 2 {
					break
				}
				sub := ctxTraceOpt(p, r.Results[0], ci.Static, nest+1)
				for l := range sub.Layers {
					res.Layers[l] = true
				}
				for rt := range sub.Roots {
					if !strings.HasPrefix(rt, "param:") && rt != "request" {
						res.Roots[rt] = true
					}
				}
			}
			res.Layers["fn:"+short] = true
			rec(nxt, append(chain, "fn:"+short), depth+1)
			return
		}
		res.Layers[short] = true
		rec(nxt, append(chain, short), depth+1)
		return
	}
	// a helper of the module that builds the context from something else it is given (the request): follow
	// what it returns
	if ci.Static != nil && ci.Static.Blocks != nil && strings.HasPrefix(ci.Pkg, core.ModulePath) && nest <= 2 {
		sig := ci.Static.Signature
		if sig.Results().Len() >= 1 && core.TypeStr(sig.Results().At(0).Type()) == "context.Context" {
			short := strings.TrimPrefix(full, core.ModulePath+"/")
			res.Layers["fn:"+short] = true
			for _, r := range core.Returns(ci.Static) {
				rec(r.Results[0], append(chain, "fn:"+short), depth+1)
			}
			return
		}
	}
	root("unknown:call "+full, chain)
}

var _ = types.Typ
