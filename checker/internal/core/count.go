package core

import (
	"golang.org/x/tools/go/ssa"
)

// Inf is the count reported when a matching instruction lies on a cycle.
const Inf = 1 << 30

// CountRange computes, over all paths from `from` to any normal Return of the
// function (panicking exits ignored) — restricted by edgeOK if non-nil —, the
// minimum and maximum number of executed instructions matching pred
// (E-callcount). max == Inf if a matching instruction lies on a cycle that is
// on some such path. ok == false if no return is reachable.
func CountRange(from Loc, pred func(ssa.Instruction) bool, edgeOK func(b *ssa.BasicBlock, succIdx int) bool) (min, max int, ok bool) {
	fn := from.B.Parent()
	// node = block; the start block counts only instrs from from.Idx on.
	// We split the start block: a virtual node "start" for the partial block.
	type node struct {
		b       *ssa.BasicBlock
		partial bool
	}
	cnt := func(n node) int {
		c := 0
		start := 0
		if n.partial {
			start = from.Idx
		}
		for i := start; i < len(n.b.Instrs); i++ {
			if pred(n.b.Instrs[i]) {
				c++
			}
		}
		return c
	}
	isRet := func(b *ssa.BasicBlock) bool {
		if len(b.Instrs) == 0 {
			return false
		}
		_, ok := b.Instrs[len(b.Instrs)-1].(*ssa.Return)
		return ok
	}
	succs := func(n node) []node {
		var out []node
		for i, s := range n.b.Succs {
			if edgeOK != nil && !edgeOK(n.b, i) {
				continue
			}
			out = append(out, node{s, false})
		}
		return out
	}
	_ = fn
	startN := node{from.B, true}
	// Tarjan SCC on reachable nodes.
	index := map[node]int{}
	low := map[node]int{}
	onStack := map[node]bool{}
	var stack []node
	comp := map[node]int{}
	var comps [][]node
	idx := 0
	var strong func(v node)
	strong = func(v node) {
		index[v] = idx
		low[v] = idx
		idx++
		stack = append(stack, v)
		onStack[v] = true
		for _, w := range succs(v) {
			if _, seen := index[w]; !seen {
				strong(w)
				if low[w] < low[v] {
					low[v] = low[w]
				}
			} else if onStack[w] && index[w] < low[v] {
				low[v] = index[w]
			}
		}
		if low[v] == index[v] {
			var c []node
			for {
				w := stack[len(stack)-1]
				stack = stack[:len(stack)-1]
				onStack[w] = false
				comp[w] = len(comps)
				c = append(c, w)
				if w == v {
					break
				}
			}
			comps = append(comps, c)
		}
	}
	strong(startN)
	// per component: count (sum if acyclic singleton; Inf if cyclic and has matches)
	nc := len(comps)
	cmin := make([]int, nc)
	cmax := make([]int, nc)
	cyc := make([]bool, nc)
	hasRet := make([]bool, nc)
	for ci, c := range comps {
		if len(c) > 1 {
			cyc[ci] = true
		}
		for _, n := range c {
			for _, s := range succs(n) {
				if s == n {
					cyc[ci] = true
				}
			}
			if isRet(n.b) {
				hasRet[ci] = true
			}
		}
		if !cyc[ci] {
			cmin[ci] = cnt(c[0])
			cmax[ci] = cmin[ci]
		} else {
			tot := 0
			for _, n := range c {
				tot += cnt(n)
			}
			cmin[ci] = 0 // conservative: a loop may be skipped or its matching part avoided
			// min within a cycle: the cheapest way through is at least 0; we
			// refine: if the component is entered at node with matches that
			// cannot be avoided we still say 0 (sound lower bound).
			if tot > 0 {
				cmax[ci] = Inf
			}
		}
	}
	// DP over the condensation (Tarjan emits components in reverse topological order).
	const unset = -1
	bestMin := make([]int, nc)
	bestMax := make([]int, nc)
	for i := range bestMin {
		bestMin[i] = unset
		bestMax[i] = unset
	}
	for ci := 0; ci < nc; ci++ { // successors have smaller index
		mn, mx := unset, unset
		if hasRet[ci] {
			mn, mx = 0, 0
		}
		for _, n := range comps[ci] {
			for _, s := range succs(n) {
				sc := comp[s]
				if sc == ci || bestMin[sc] == unset {
					continue
				}
				if mn == unset || bestMin[sc] < mn {
					mn = bestMin[sc]
				}
				if mx == unset || bestMax[sc] > mx {
					mx = bestMax[sc]
				}
			}
		}
		if mn == unset {
			continue
		}
		bestMin[ci] = mn + cmin[ci]
		bestMax[ci] = mx + cmax[ci]
		if bestMax[ci] > Inf {
			bestMax[ci] = Inf
		}
	}
	sc := comp[startN]
	if bestMin[sc] == unset {
		return 0, 0, false
	}
	return bestMin[sc], bestMax[sc], true
}

// LoopOf returns, for each block of fn, the id of the cyclic strongly
// connected component it belongs to (-1 if the block is not on a cycle).
func LoopOf(fn *ssa.Function) map[*ssa.BasicBlock]int {
	index := map[*ssa.BasicBlock]int{}
	low := map[*ssa.BasicBlock]int{}
	on := map[*ssa.BasicBlock]bool{}
	var stack []*ssa.BasicBlock
	out := map[*ssa.BasicBlock]int{}
	idx, cid := 0, 0
	var strong func(v *ssa.BasicBlock)
	strong = func(v *ssa.BasicBlock) {
		index[v], low[v] = idx, idx
		idx++
		stack = append(stack, v)
		on[v] = true
		for _, w := range v.Succs {
			if _, seen := index[w]; !seen {
				strong(w)
				if low[w] < low[v] {
					low[v] = low[w]
				}
			} else if on[w] && index[w] < low[v] {
				low[v] = index[w]
			}
		}
		if low[v] == index[v] {
			var comp []*ssa.BasicBlock
			for {
				w := stack[len(stack)-1]
				stack = stack[:len(stack)-1]
				on[w] = false
				comp = append(comp, w)
				if w == v {
					break
				}
			}
			cyc := len(comp) > 1
			for _, s := range v.Succs {
				if s == v {
					cyc = true
				}
			}
			for _, b := range comp {
				if cyc {
					out[b] = cid
				} else {
					out[b] = -1
				}
			}
			if cyc {
				cid++
			}
		}
	}
	for _, b := range fn.Blocks {
		if _, seen := index[b]; !seen {
			strong(b)
		}
	}
	return out
}
