package core

import (
	"go/token"
	"reflect"
	"unsafe"

	"golang.org/x/tools/go/ssa"
)

// Single-exit normalisation.
//
// A function written with one result variable and one return statement
//
//	var err error
//	if a { err = f() } else if b { err = g() } else { err = h() }
//	return err
//
// is, in SSA form, a return block that holds nothing but φ-nodes (and the
// RunDefers of a function with defers) and whose predecessors end in a plain
// jump. Every rule that reasons per return ("each possibly-nil return lies
// behind …") would see ONE return with a merged value and lose the path that
// led to each value. UndoSingleExit duplicates that tail into each jumping
// predecessor: the predecessor gets its own Return of the φ's operand for its
// edge. This is the inverse of what the refactoring did and changes no
// behaviour of the analysed function; it is applied to the in-memory SSA only.
//
// go/ssa does not export the block/position fields of instructions, so the two
// that a fresh Return / RunDefers needs are set through reflect + unsafe.

func setInstrBlock(in ssa.Instruction, b *ssa.BasicBlock) {
	v := reflect.ValueOf(in).Elem().FieldByName("anInstruction").FieldByName("block")
	*(**ssa.BasicBlock)(unsafe.Pointer(v.UnsafeAddr())) = b
}

func setReturnPos(r *ssa.Return, pos token.Pos) {
	v := reflect.ValueOf(r).Elem().FieldByName("pos")
	*(*token.Pos)(unsafe.Pointer(v.UnsafeAddr())) = pos
}

func addRef(v ssa.Value, in ssa.Instruction) {
	if v == nil {
		return
	}
	if rs := v.Referrers(); rs != nil {
		*rs = append(*rs, in)
	}
}

func dropRef(v ssa.Value, in ssa.Instruction) {
	if v == nil {
		return
	}
	rs := v.Referrers()
	if rs == nil {
		return
	}
	out := (*rs)[:0]
	for _, r := range *rs {
		if r != in {
			out = append(out, r)
		}
	}
	*rs = out
}

// UndoSingleExit rewrites fn in place; it reports how many returns it split off.
func UndoSingleExit(fn *ssa.Function) int {
	if fn == nil || fn.Blocks == nil {
		return 0
	}
	n := 0
	for _, B := range append([]*ssa.BasicBlock{}, fn.Blocks...) {
		if len(B.Instrs) == 0 || len(B.Preds) < 2 {
			continue
		}
		ret, ok := B.Instrs[len(B.Instrs)-1].(*ssa.Return)
		if !ok {
			continue
		}
		pure, hasDefers := true, false
		var phis []*ssa.Phi
		// a function with defers spills its results to unnamed locals before RunDefers and reloads them for the
		// return (the recover block reads the same locals): `*t0 = v; rundefers; t9 = *t0; return t9`
		spill := map[*ssa.Alloc]ssa.Value{}
		var spills []*ssa.Store
		for _, in := range B.Instrs[:len(B.Instrs)-1] {
			switch x := in.(type) {
			case *ssa.Phi:
				phis = append(phis, x)
			case *ssa.DebugRef:
			case *ssa.RunDefers:
				hasDefers = true
			case *ssa.Store:
				al, isAl := x.Addr.(*ssa.Alloc)
				if !isAl || al.Comment != "" || hasDefers {
					pure = false
				} else {
					spill[al] = x.Val
					spills = append(spills, x)
				}
			case *ssa.UnOp:
				al, isAl := x.X.(*ssa.Alloc)
				if x.Op != token.MUL || !isAl || spill[al] == nil || !hasDefers {
					pure = false
				}
				for _, r := range *x.Referrers() {
					if r != ssa.Instruction(ret) {
						if _, isD := r.(*ssa.DebugRef); !isD {
							pure = false
						}
					}
				}
			default:
				pure = false
			}
		}
		if !pure || len(phis) == 0 {
			continue
		}
		// what the return yields, seen through the spill
		through := func(v ssa.Value) ssa.Value {
			if ld, ok := v.(*ssa.UnOp); ok && ld.Op == token.MUL && ld.Block() == B {
				if al, isAl := ld.X.(*ssa.Alloc); isAl && spill[al] != nil {
					return spill[al]
				}
			}
			return v
		}
		// every φ of the block is used by the return (and debug refs) only: nothing else observes the merge
		usedElsewhere := false
		for _, ph := range phis {
			for _, r := range *ph.Referrers() {
				switch x := r.(type) {
				case *ssa.DebugRef:
				case *ssa.Return:
					if r != ssa.Instruction(ret) {
						usedElsewhere = true
					}
				case *ssa.Store:
					if x.Block() != B {
						usedElsewhere = true
					}
				default:
					usedElsewhere = true
				}
			}
		}
		if usedElsewhere {
			continue
		}
		isPhiOfB := func(v ssa.Value) (*ssa.Phi, bool) {
			ph, ok := v.(*ssa.Phi)
			if !ok || ph.Block() != B {
				return nil, false
			}
			return ph, true
		}
		for k := len(B.Preds) - 1; k >= 0; k-- {
			p := B.Preds[k]
			if p == B || len(p.Succs) != 1 || len(p.Instrs) == 0 {
				continue
			}
			if _, isJump := p.Instrs[len(p.Instrs)-1].(*ssa.Jump); !isJump {
				continue
			}
			// the same predecessor listed twice (both arms of an If going to B) has an If, not a Jump: not reached here
			edgeVal := func(v ssa.Value) ssa.Value {
				if ph, ok := isPhiOfB(v); ok {
					return ph.Edges[k]
				}
				return v
			}
			results := make([]ssa.Value, len(ret.Results))
			for i, r := range ret.Results {
				results[i] = edgeVal(through(r))
			}
			nr := &ssa.Return{Results: results}
			setInstrBlock(nr, p)
			setReturnPos(nr, ret.Pos())
			tail := []ssa.Instruction{}
			for _, sp := range spills {
				ns := &ssa.Store{Addr: sp.Addr, Val: edgeVal(sp.Val)}
				setInstrBlock(ns, p)
				addRef(ns.Addr, ns)
				addRef(ns.Val, ns)
				tail = append(tail, ns)
			}
			if hasDefers {
				rd := &ssa.RunDefers{}
				setInstrBlock(rd, p)
				tail = append(tail, rd)
			}
			tail = append(tail, nr)
			p.Instrs = append(p.Instrs[:len(p.Instrs)-1:len(p.Instrs)-1], tail...)
			p.Succs = nil
			for _, v := range results {
				addRef(v, nr)
			}
			// unlink the edge p→B
			B.Preds = append(B.Preds[:k:k], B.Preds[k+1:]...)
			for _, ph := range phis {
				ev := ph.Edges[k]
				ph.Edges = append(ph.Edges[:k:k], ph.Edges[k+1:]...)
				still := false
				for _, e := range ph.Edges {
					if e == ev {
						still = true
					}
				}
				if !still {
					dropRef(ev, ph)
				}
			}
			n++
		}
		if len(B.Preds) == 1 {
			// one way in is left: the φs are plain copies of their only operand
			for i, r := range ret.Results {
				if ph, ok := isPhiOfB(through(r)); ok && len(ph.Edges) == 1 {
					dropRef(r, ret)
					ret.Results[i] = ph.Edges[0]
					addRef(ph.Edges[0], ret)
				}
			}
			for _, sp := range spills {
				if ph, ok := isPhiOfB(sp.Val); ok && len(ph.Edges) == 1 {
					dropRef(ph, sp)
					sp.Val = ph.Edges[0]
					addRef(sp.Val, sp)
				}
			}
			keep := B.Instrs[:0]
			for _, in := range B.Instrs {
				if ph, ok := in.(*ssa.Phi); ok && len(ph.Edges) == 1 {
					onlyDebug := true
					for _, r := range *ph.Referrers() {
						if _, isD := r.(*ssa.DebugRef); !isD {
							onlyDebug = false
						}
					}
					if onlyDebug {
						dropRef(ph.Edges[0], ph)
						continue
					}
				}
				if d, ok := in.(*ssa.DebugRef); ok {
					if ph, isPh := d.X.(*ssa.Phi); isPh && ph.Block() == B && len(ph.Edges) == 1 {
						continue
					}
				}
				keep = append(keep, in)
			}
			B.Instrs = keep
		}
		if len(B.Preds) == 0 {
			// the block is dead: take it (and what its instructions refer to) out
			for _, ph := range phis {
				for _, e := range ph.Edges {
					dropRef(e, ph)
				}
			}
			for _, r := range ret.Results {
				dropRef(r, ret)
			}
			for _, in := range B.Instrs {
				switch x := in.(type) {
				case *ssa.Store:
					dropRef(x.Addr, x)
					dropRef(x.Val, x)
				case *ssa.UnOp:
					dropRef(x.X, x)
				}
			}
			out := fn.Blocks[:0]
			for _, b := range fn.Blocks {
				if b != B {
					out = append(out, b)
				}
			}
			fn.Blocks = out
			for i, b := range fn.Blocks {
				b.Index = i
			}
		}
	}
	return n
}
