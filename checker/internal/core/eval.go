package core

import (
	"fmt"
	"go/ast"
	"go/constant"
	"go/token"
	"go/types"
	"sort"
)

// IntFunc abstractly evaluates a pure function of one integer parameter whose
// body consists only of switch/if/return over comparisons of the parameter
// with constants (E-table). Anything else is rejected (error → UNDECIDED).
type IntFunc struct {
	Decl  *ast.FuncDecl
	Info  *types.Info
	Param types.Object
	// Consts are all integer constants compared with the parameter.
	Consts map[int64]bool
	// VarInit, if set, returns the initialiser expression of a package-level
	// variable (for "if v, ok := table[param]; ok { return v }" over a map
	// literal with constant keys and values).
	VarInit func(types.Object) ast.Expr
	env     map[types.Object]constant.Value
}

func NewIntFunc(decl *ast.FuncDecl, info *types.Info, varInit ...func(types.Object) ast.Expr) (*IntFunc, error) {
	if decl.Body == nil || decl.Type.Params == nil || len(decl.Type.Params.List) != 1 || len(decl.Type.Params.List[0].Names) != 1 {
		return nil, fmt.Errorf("not a one-parameter function")
	}
	f := &IntFunc{Decl: decl, Info: info, Consts: map[int64]bool{}, env: map[types.Object]constant.Value{}}
	if len(varInit) > 0 {
		f.VarInit = varInit[0]
	}
	f.Param = info.Defs[decl.Type.Params.List[0].Names[0]]
	if f.Param == nil {
		return nil, fmt.Errorf("parameter object not found")
	}
	// shape check: the parameter may be used only as switch tag or operand of
	// a comparison with a constant.
	var bad error
	ast.Inspect(decl.Body, func(n ast.Node) bool {
		if as, ok := n.(*ast.AssignStmt); ok && f.tableLookup(as) != nil {
			// v, ok := table[param] over a constant map literal
			for k := range f.tableLookup(as) {
				f.Consts[k] = true
			}
			return false
		}
		// a local that only ever holds constants (the "one result variable, one return" form): `x = c`, `x := c`
		if as, ok := n.(*ast.AssignStmt); ok && len(as.Lhs) == 1 && len(as.Rhs) == 1 && (as.Tok == token.ASSIGN || as.Tok == token.DEFINE) {
			if id, isId := as.Lhs[0].(*ast.Ident); isId {
				obj := info.Defs[id]
				if obj == nil {
					obj = info.Uses[id]
				}
				if v, isVar := obj.(*types.Var); isVar && v.Parent() != nil && v.Parent() != v.Pkg().Scope() && obj != f.Param {
					return true // the right-hand side is inspected like any expression
				}
			}
		}
		switch x := n.(type) {
		case *ast.AssignStmt, *ast.IncDecStmt, *ast.GoStmt, *ast.DeferStmt, *ast.ForStmt, *ast.RangeStmt, *ast.CallExpr:
			if ce, ok := x.(*ast.CallExpr); ok {
				// conversions of constants are fine (e.g. codes.Code(3))
				if tv, ok := info.Types[ce]; ok && tv.Value != nil {
					return false
				}
			}
			bad = fmt.Errorf("unsupported construct %T at %v", n, n.Pos())
		case *ast.BranchStmt:
			bad = fmt.Errorf("unsupported branch statement %s", x.Tok)
		}
		return bad == nil
	})
	if bad != nil {
		return nil, bad
	}
	ast.Inspect(decl.Body, func(n ast.Node) bool {
		if e, ok := n.(ast.Expr); ok {
			if tv, ok := info.Types[e]; ok && tv.Value != nil && tv.Value.Kind() == constant.Int {
				if v, ok := constant.Int64Val(tv.Value); ok {
					f.Consts[v] = true
				}
				return false
			}
		}
		return true
	})
	return f, nil
}

// Points returns the interval-partition representatives: every constant c
// with c-1 and c+1, plus the extremes. Because the parameter is only ever
// compared with these constants, the function is constant between them.
func (f *IntFunc) Points() []int64 {
	m := map[int64]bool{0: true, -1: true, 1: true, -1 << 63: true, 1<<63 - 1: true, -1 << 31: true, 1<<31 - 1: true}
	for c := range f.Consts {
		m[c] = true
		m[c-1] = true
		m[c+1] = true
	}
	var out []int64
	for v := range m {
		out = append(out, v)
	}
	sort.Slice(out, func(i, j int) bool { return out[i] < out[j] })
	return out
}

type retVal struct {
	v  constant.Value
	ok bool
}

// Eval evaluates the function for a concrete argument.
func (f *IntFunc) Eval(arg int64) (int64, error) {
	r, err := f.block(f.Decl.Body.List, constant.MakeInt64(arg))
	if err != nil {
		return 0, err
	}
	if !r.ok {
		return 0, fmt.Errorf("no return reached for %d", arg)
	}
	v, ok := constant.Int64Val(r.v)
	if !ok {
		return 0, fmt.Errorf("non-integer result")
	}
	return v, nil
}

func (f *IntFunc) block(list []ast.Stmt, arg constant.Value) (retVal, error) {
	for _, s := range list {
		r, err := f.stmt(s, arg)
		if err != nil || r.ok {
			return r, err
		}
	}
	return retVal{}, nil
}

func (f *IntFunc) stmt(s ast.Stmt, arg constant.Value) (retVal, error) {
	switch s := s.(type) {
	case *ast.ReturnStmt:
		if len(s.Results) != 1 {
			return retVal{}, fmt.Errorf("return with %d results", len(s.Results))
		}
		v, err := f.expr(s.Results[0], arg)
		return retVal{v, err == nil}, err
	case *ast.BlockStmt:
		return f.block(s.List, arg)
	case *ast.IfStmt:
		if s.Init != nil {
			as, ok := s.Init.(*ast.AssignStmt)
			tbl := map[int64]constant.Value(nil)
			if ok {
				tbl = f.tableLookup(as)
			}
			if tbl == nil {
				return retVal{}, fmt.Errorf("if with init")
			}
			k, _ := constant.Int64Val(arg)
			v, hit := tbl[k]
			if id, ok := as.Lhs[0].(*ast.Ident); ok && f.Info.Defs[id] != nil {
				if hit {
					f.env[f.Info.Defs[id]] = v
				} else {
					f.env[f.Info.Defs[id]] = constant.MakeInt64(0)
				}
			}
			if id, ok := as.Lhs[1].(*ast.Ident); ok && f.Info.Defs[id] != nil {
				f.env[f.Info.Defs[id]] = constant.MakeBool(hit)
			}
		}
		c, err := f.expr(s.Cond, arg)
		if err != nil {
			return retVal{}, err
		}
		if constant.BoolVal(c) {
			return f.block(s.Body.List, arg)
		}
		if s.Else != nil {
			return f.stmt(s.Else, arg)
		}
		return retVal{}, nil
	case *ast.SwitchStmt:
		if s.Init != nil {
			return retVal{}, fmt.Errorf("switch with init")
		}
		var tag constant.Value
		if s.Tag != nil {
			t, err := f.expr(s.Tag, arg)
			if err != nil {
				return retVal{}, err
			}
			tag = t
		}
		var def *ast.CaseClause
		for _, cs := range s.Body.List {
			cc := cs.(*ast.CaseClause)
			if cc.List == nil {
				def = cc
				continue
			}
			for _, e := range cc.List {
				v, err := f.expr(e, arg)
				if err != nil {
					return retVal{}, err
				}
				hit := false
				if tag != nil {
					hit = constant.Compare(tag, token.EQL, v)
				} else {
					hit = constant.BoolVal(v)
				}
				if hit {
					return f.block(cc.Body, arg)
				}
			}
		}
		if def != nil {
			return f.block(def.Body, arg)
		}
		return retVal{}, nil
	case *ast.EmptyStmt:
		return retVal{}, nil
	case *ast.DeclStmt:
		gd, ok := s.Decl.(*ast.GenDecl)
		if !ok || gd.Tok != token.VAR {
			return retVal{}, fmt.Errorf("unsupported declaration")
		}
		for _, sp := range gd.Specs {
			vs := sp.(*ast.ValueSpec)
			for i, id := range vs.Names {
				obj := f.Info.Defs[id]
				if obj == nil {
					continue
				}
				if i < len(vs.Values) {
					v, err := f.expr(vs.Values[i], arg)
					if err != nil {
						return retVal{}, err
					}
					f.env[obj] = v
					continue
				}
				b, isB := obj.Type().Underlying().(*types.Basic)
				switch {
				case isB && b.Info()&types.IsInteger != 0:
					f.env[obj] = constant.MakeInt64(0)
				case isB && b.Info()&types.IsBoolean != 0:
					f.env[obj] = constant.MakeBool(false)
				default:
					return retVal{}, fmt.Errorf("local %s of unsupported type", id.Name)
				}
			}
		}
		return retVal{}, nil
	case *ast.AssignStmt:
		if len(s.Lhs) == 1 && len(s.Rhs) == 1 && (s.Tok == token.ASSIGN || s.Tok == token.DEFINE) {
			if id, isId := s.Lhs[0].(*ast.Ident); isId {
				obj := f.Info.Defs[id]
				if obj == nil {
					obj = f.Info.Uses[id]
				}
				if obj != nil && obj != f.Param {
					v, err := f.expr(s.Rhs[0], arg)
					if err != nil {
						return retVal{}, err
					}
					f.env[obj] = v
					return retVal{}, nil
				}
			}
		}
		return retVal{}, fmt.Errorf("unsupported assignment")
	}
	return retVal{}, fmt.Errorf("unsupported statement %T", s)
}

func (f *IntFunc) expr(e ast.Expr, arg constant.Value) (constant.Value, error) {
	if tv, ok := f.Info.Types[e]; ok && tv.Value != nil {
		return tv.Value, nil
	}
	switch e := e.(type) {
	case *ast.ParenExpr:
		return f.expr(e.X, arg)
	case *ast.Ident:
		if f.Info.Uses[e] == f.Param {
			return arg, nil
		}
		if v, ok := f.env[f.Info.Uses[e]]; ok {
			return v, nil
		}
		return nil, fmt.Errorf("non-constant identifier %s", e.Name)
	case *ast.UnaryExpr:
		if e.Op == token.NOT {
			v, err := f.expr(e.X, arg)
			if err != nil {
				return nil, err
			}
			return constant.MakeBool(!constant.BoolVal(v)), nil
		}
	case *ast.BinaryExpr:
		x, err := f.expr(e.X, arg)
		if err != nil {
			return nil, err
		}
		switch e.Op {
		case token.LAND:
			if !constant.BoolVal(x) {
				return x, nil
			}
			return f.expr(e.Y, arg)
		case token.LOR:
			if constant.BoolVal(x) {
				return x, nil
			}
			return f.expr(e.Y, arg)
		}
		y, err := f.expr(e.Y, arg)
		if err != nil {
			return nil, err
		}
		switch e.Op {
		case token.EQL, token.NEQ, token.LSS, token.LEQ, token.GTR, token.GEQ:
			return constant.MakeBool(constant.Compare(x, e.Op, y)), nil
		}
	}
	return nil, fmt.Errorf("unsupported expression %T", e)
}

// tableLookup: as is "v, ok := T[param]" with T a package-level map variable
// initialised by a literal whose keys and values are integer constants; returns
// the table (nil otherwise).
func (f *IntFunc) tableLookup(as *ast.AssignStmt) map[int64]constant.Value {
	if f.VarInit == nil || as.Tok != token.DEFINE || len(as.Lhs) != 2 || len(as.Rhs) != 1 {
		return nil
	}
	ix, ok := as.Rhs[0].(*ast.IndexExpr)
	if !ok {
		return nil
	}
	id, ok := ix.X.(*ast.Ident)
	pid, ok2 := ix.Index.(*ast.Ident)
	if !ok || !ok2 || f.Info.Uses[pid] != f.Param {
		return nil
	}
	obj := f.Info.Uses[id]
	if v, isVar := obj.(*types.Var); !isVar || v.Parent() != v.Pkg().Scope() {
		return nil
	}
	lit, ok := f.VarInit(obj).(*ast.CompositeLit)
	if !ok {
		return nil
	}
	out := map[int64]constant.Value{}
	for _, el := range lit.Elts {
		kv, ok := el.(*ast.KeyValueExpr)
		if !ok {
			return nil
		}
		ktv, ok1 := f.Info.Types[kv.Key]
		vtv, ok2 := f.Info.Types[kv.Value]
		if !ok1 || !ok2 || ktv.Value == nil || vtv.Value == nil {
			return nil
		}
		k, okk := constant.Int64Val(ktv.Value)
		if !okk {
			return nil
		}
		out[k] = vtv.Value
	}
	return out
}
