package core

import (
	"go/token"
	"sort"
	"strings"

	"golang.org/x/tools/go/ssa"
)

// LockKey canonicalises the mutex a Lock/Unlock call operates on:
// "<StructType>.<field>" for a mutex field, "cell:<name>" for a local.
func LockKey(v ssa.Value) string {
	switch x := v.(type) {
	case *ssa.FieldAddr:
		st := derefStruct(x.X.Type())
		if st == nil {
			return ""
		}
		b, prefix := promotedBaseName(x.X)
		return NamedOf(b.Type()) + "." + prefix + FieldName(st, x.Field)
	case *ssa.Alloc:
		return "cell:" + x.Comment
	case *ssa.Global:
		return "global:" + x.Name()
	}
	return ""
}

// LockOp classifies a call as lock operation.
func LockOp(cc *ssa.CallCommon) (key string, acquire, release, write bool) {
	ci := InfoOf(cc)
	if ci.Pkg != "sync" || (ci.Recv != "Mutex" && ci.Recv != "RWMutex") || len(cc.Args) == 0 {
		return "", false, false, false
	}
	key = LockKey(cc.Args[0])
	switch ci.Name {
	case "Lock":
		return key, true, false, true
	case "RLock":
		return key, true, false, false
	case "Unlock":
		return key, false, true, true
	case "RUnlock":
		return key, false, true, false
	}
	return "", false, false, false
}

// LockSets is the result of the must-held lockset analysis (E-lockset).
type LockSets struct {
	fns   map[*ssa.Function]bool
	in    map[*ssa.BasicBlock]map[string]bool // held at block entry ("k" write, "k:R" read)
	Entry map[*ssa.Function]map[string]bool   // held at function entry (∩ over call sites)
	// Order edges: lock B acquired while A held.
	Order map[[2]string]token.Pos
	// Unreleased: Lock without release on some exit.
	Notes []string
}

func cloneSet(m map[string]bool) map[string]bool {
	o := make(map[string]bool, len(m))
	for k := range m {
		o[k] = true
	}
	return o
}

func interSet(a, b map[string]bool) map[string]bool {
	o := map[string]bool{}
	for k := range a {
		if b[k] {
			o[k] = true
		}
	}
	return o
}

func sameSet(a, b map[string]bool) bool {
	if len(a) != len(b) {
		return false
	}
	for k := range a {
		if !b[k] {
			return false
		}
	}
	return true
}

// condHandoff: for a closure reading a captured bool cell C: if in the owner
// every store of `true` to C directly follows (same block, no release in
// between) a Lock of key K, then "C is true" implies K is held by the owner
// for the closure to release. Returns K or "".
func condHandoff(cell *ssa.Alloc) string {
	key := ""
	okAll := true
	n := 0
	for _, st := range StoresTo(cell) {
		b, isC := ConstBool(st.Val)
		if !isC {
			okAll = false
			continue
		}
		if !b {
			continue
		}
		n++
		// look backwards in the block for the Lock
		blk := st.Block()
		found := ""
		for i := len(blk.Instrs) - 1; i >= 0; i-- {
			if blk.Instrs[i] == ssa.Instruction(st) {
				for j := i - 1; j >= 0; j-- {
					if cc := CallOf(blk.Instrs[j]); cc != nil {
						k, acq, rel, _ := LockOp(cc)
						if rel {
							break
						}
						if acq {
							found = k
							break
						}
					}
				}
			}
		}
		if found == "" || (key != "" && key != found) {
			okAll = false
		}
		key = found
	}
	if !okAll || n == 0 {
		return ""
	}
	return key
}

// NewLockSets analyses fns (functions and literals of the library).
func NewLockSets(fns []*ssa.Function) *LockSets {
	ls := &LockSets{fns: map[*ssa.Function]bool{}, in: map[*ssa.BasicBlock]map[string]bool{}, Entry: map[*ssa.Function]map[string]bool{}, Order: map[[2]string]token.Pos{}}
	for _, f := range fns {
		ls.fns[f] = true
	}
	// callers
	type site struct {
		caller *ssa.Function
		instr  ssa.Instruction
		defer_ bool
	}
	callers := map[*ssa.Function][]site{}
	for _, f := range fns {
		if f.Blocks == nil {
			continue
		}
		Instrs(f, func(in ssa.Instruction) {
			cc := CallOf(in)
			if cc == nil {
				return
			}
			if _, isGo := in.(*ssa.Go); isGo {
				return // a goroutine starts with nothing held
			}
			ci := InfoOf(cc)
			var tgt *ssa.Function
			if ci.Static != nil && ls.fns[ci.Static] {
				tgt = ci.Static
			} else {
				for _, o := range originsNoLoad(cc.Value) {
					if mc, ok := o.(*ssa.MakeClosure); ok {
						if fn := mc.Fn.(*ssa.Function); ls.fns[fn] {
							tgt = fn
						}
					}
				}
			}
			if tgt != nil {
				_, isDefer := in.(*ssa.Defer)
				callers[tgt] = append(callers[tgt], site{f, in, isDefer})
			}
			// a call of a func-typed parameter (a helper that runs its argument under a lock: withLock(func(){…})):
			// the function literals handed to f in that position are called here, with whatever f holds here
			if par, isPar := Strip(cc.Value).(*ssa.Parameter); isPar && tgt == nil {
				pi := -1
				for i, pp := range f.Params {
					if pp == par {
						pi = i
					}
				}
				if pi >= 0 {
					for _, g := range fns {
						if g.Blocks == nil {
							continue
						}
						Instrs(g, func(gin ssa.Instruction) {
							gc := CallOf(gin)
							if gc == nil || gc.StaticCallee() != f || pi >= len(gc.Args) {
								return
							}
							for _, o := range originsNoLoad(gc.Args[pi]) {
								if mc, ok := o.(*ssa.MakeClosure); ok {
									if lit := mc.Fn.(*ssa.Function); ls.fns[lit] {
										_, isDefer := in.(*ssa.Defer)
										callers[lit] = append(callers[lit], site{f, in, isDefer})
									}
								}
							}
						})
					}
				}
			}
		})
	}
	top := map[string]bool{"⊤": true}
	for _, f := range fns {
		if len(callers[f]) == 0 {
			ls.Entry[f] = map[string]bool{}
		} else {
			ls.Entry[f] = top
		}
	}
	for round := 0; round < 10; round++ {
		changed := false
		for _, f := range fns {
			if f.Blocks == nil {
				continue
			}
			ls.analyse(f)
		}
		for _, f := range fns {
			if len(callers[f]) == 0 {
				continue
			}
			var acc map[string]bool
			for _, s := range callers[f] {
				var held map[string]bool
				if s.defer_ {
					// runs at function exit: what is held at every RunDefers/return of the caller
					held = ls.heldAtExit(s.caller)
				} else {
					held = ls.HeldAt(s.instr)
				}
				if held["⊤"] {
					continue
				}
				if acc == nil {
					acc = cloneSet(held)
				} else {
					acc = interSet(acc, held)
				}
			}
			if acc == nil {
				continue
			}
			if !sameSet(acc, ls.Entry[f]) {
				ls.Entry[f] = acc
				changed = true
			}
		}
		if !changed {
			break
		}
	}
	for _, f := range fns {
		if ls.Entry[f]["⊤"] {
			ls.Entry[f] = map[string]bool{}
		}
	}
	for _, f := range fns {
		if f.Blocks != nil {
			ls.analyse(f)
		}
	}
	return ls
}

func (ls *LockSets) heldAtExit(f *ssa.Function) map[string]bool {
	var acc map[string]bool
	Instrs(f, func(in ssa.Instruction) {
		if _, ok := in.(*ssa.RunDefers); ok {
			h := ls.HeldAt(in)
			if acc == nil {
				acc = cloneSet(h)
			} else {
				acc = interSet(acc, h)
			}
		}
	})
	if acc == nil {
		return map[string]bool{}
	}
	return acc
}

func (ls *LockSets) step(in ssa.Instruction, st map[string]bool, record bool) {
	cc := CallOf(in)
	if cc == nil {
		return
	}
	if _, isDefer := in.(*ssa.Defer); isDefer {
		return // deferred Unlock: held until exit
	}
	if _, isGo := in.(*ssa.Go); isGo {
		return
	}
	key, acq, rel, wr := LockOp(cc)
	if key == "" {
		return
	}
	if !wr {
		// read lock: tracked under a separate key
		if acq {
			st[key+":R"] = true
		}
		if rel {
			delete(st, key+":R")
		}
		return
	}
	if acq {
		if record {
			for h := range st {
				if h != key && h != "⊤" {
					e := [2]string{h, key}
					if _, ok := ls.Order[e]; !ok {
						ls.Order[e] = in.Pos()
					}
				}
			}
		}
		st[key] = true
	}
	if rel {
		delete(st, key)
	}
}

func (ls *LockSets) analyse(f *ssa.Function) {
	entry := cloneSet(ls.Entry[f])
	for _, b := range f.Blocks {
		delete(ls.in, b)
	}
	ls.in[f.Blocks[0]] = entry
	work := []*ssa.BasicBlock{f.Blocks[0]}
	inWork := map[*ssa.BasicBlock]bool{f.Blocks[0]: true}
	visited := map[*ssa.BasicBlock]bool{}
	for iter := 0; len(work) > 0 && iter < 10000; iter++ {
		b := work[0]
		work = work[1:]
		inWork[b] = false
		visited[b] = true
		st := cloneSet(ls.in[b])
		for _, in := range b.Instrs {
			ls.step(in, st, true)
		}
		for si, s := range b.Succs {
			o := cloneSet(st)
			// conditional hand-off idiom
			if iff, ok := b.Instrs[len(b.Instrs)-1].(*ssa.If); ok && b.Succs[0] != b.Succs[1] {
				fct := CondFact(iff.Cond, si == 0)
				if fct.Op == token.ILLEGAL && !fct.Neg {
					fx := fct.X
					// the flag handed as an argument to a single-use step function (the deferred tail as a method)
					if par, isPar := fx.(*ssa.Parameter); isPar {
						fx = ResolveFree(par)
					}
					if u, ok := fx.(*ssa.UnOp); ok && u.Op == token.MUL {
						if al, ok := ResolveFree(u.X).(*ssa.Alloc); ok && al.Parent() != f {
							if k := condHandoff(al); k != "" {
								o[k] = true
							}
						}
					}
				}
			}
			cur, seen := ls.in[s]
			if !seen {
				ls.in[s] = o
				if !inWork[s] {
					work = append(work, s)
					inWork[s] = true
				}
				continue
			}
			n := interSet(cur, o)
			if cur["⊤"] {
				n = o
			}
			if !sameSet(n, cur) {
				ls.in[s] = n
				if !inWork[s] {
					work = append(work, s)
					inWork[s] = true
				}
			}
		}
	}
}

// HeldAt returns the locks certainly held just before instr.
func (ls *LockSets) HeldAt(instr ssa.Instruction) map[string]bool {
	b := instr.Block()
	st := cloneSet(ls.in[b])
	for _, in := range b.Instrs {
		if in == instr {
			break
		}
		ls.step(in, st, false)
	}
	return st
}

// HeldList renders a lock set.
func HeldList(m map[string]bool) string {
	var ks []string
	for k := range m {
		ks = append(ks, k)
	}
	sort.Strings(ks)
	return "{" + strings.Join(ks, ", ") + "}"
}

// Releases reports, for a Lock call, whether the lock is released on every
// path to a normal return (explicit Unlock, deferred Unlock, or a deferred
// closure that unlocks).
func (ls *LockSets) Released(lock ssa.Instruction, key string) bool {
	f := lock.Parent()
	// deferred release registered before or after? any Defer of Unlock(key) or closure that unlocks key,
	// executed on every path from the lock to return
	isRelease := func(in ssa.Instruction) bool {
		cc := CallOf(in)
		if cc == nil {
			return false
		}
		if k, _, rel, _ := LockOp(cc); rel && k == key {
			return true
		}
		// a function of the analysed set that releases (closeAndUnlock(): the deferred tail as a method)
		if st := cc.StaticCallee(); st != nil && ls.fns[st] && st.Blocks != nil {
			rel, acq := false, false
			InstrsDeep(st, func(_ *ssa.Function, x ssa.Instruction) {
				if c2 := CallOf(x); c2 != nil {
					if k, a, r, _ := LockOp(c2); k == key {
						rel = rel || r
						acq = acq || a
					}
				}
			})
			if rel && !acq {
				return true
			}
		}
		// closure that releases
		for _, o := range originsNoLoad(cc.Value) {
			if mc, ok := o.(*ssa.MakeClosure); ok {
				rel := false
				InstrsDeep(mc.Fn.(*ssa.Function), func(_ *ssa.Function, x ssa.Instruction) {
					if c2 := CallOf(x); c2 != nil {
						if k, _, r, _ := LockOp(c2); r && k == key {
							rel = true
						}
					}
				})
				if rel {
					return true
				}
			}
		}
		return false
	}
	// a defer registered anywhere that dominates... simplest: every path from after the lock to a return
	// passes an explicit release, OR a deferred release was registered on every path from entry to the return.
	for _, r := range Returns(f) {
		if !Reachable(After(lock), r) {
			continue
		}
		explicit := MustPass(After(lock), r, func(in ssa.Instruction) bool {
			if _, isDefer := in.(*ssa.Defer); isDefer {
				return isRelease(in)
			}
			if _, isCall := in.(*ssa.Call); isCall {
				return isRelease(in)
			}
			return false
		})
		if explicit {
			continue
		}
		deferred := MustPass(Entry(f), r, func(in ssa.Instruction) bool {
			_, isDefer := in.(*ssa.Defer)
			return isDefer && isRelease(in)
		})
		if !deferred {
			return false
		}
	}
	return true
}
