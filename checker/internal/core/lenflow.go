package core

import (
	"fmt"
	"go/token"
	"go/types"

	"golang.org/x/tools/go/ssa"
)

// LenState is the result of a forward dataflow analysis computing, at every
// instruction, lower bounds on len(v) for string/slice SSA values and for
// local variable cells (Alloc) that are only written by the function itself.
type LenState struct {
	canon map[ssa.Value]ssa.Value // repeated loads of the same element → first load
	fn    *ssa.Function
	in    map[*ssa.BasicBlock]map[ssa.Value]int64 // state at block entry
	why   map[ssa.Value]string
	cells map[*ssa.Alloc]bool // tracked cells
}

func cloneLS(m map[ssa.Value]int64) map[ssa.Value]int64 {
	o := make(map[ssa.Value]int64, len(m))
	for k, v := range m {
		o[k] = v
	}
	return o
}

// lb computes the lower bound of len(v) in state st.
func (ls *LenState) c(v ssa.Value) ssa.Value {
	if r, ok := ls.canon[v]; ok {
		return r
	}
	return v
}

func (ls *LenState) lb(v ssa.Value, st map[ssa.Value]int64, depth int) int64 {
	v = ls.c(v)
	best := st[v]
	if h, ok := ParamLenHints[v]; ok && h > best {
		best = h
	}
	if depth > 8 {
		return best
	}
	up := func(n int64) {
		if n > best {
			best = n
		}
	}
	switch x := v.(type) {
	case *ssa.Const:
		if s, ok := ConstString(x); ok {
			up(int64(len(s)))
		}
	case *ssa.BinOp:
		if x.Op == token.ADD {
			up(ls.lb(x.X, st, depth+1) + ls.lb(x.Y, st, depth+1))
		}
	case *ssa.Slice:
		lo := int64(0)
		if x.Low != nil {
			k, ok := ConstInt(x.Low)
			if !ok {
				return best
			}
			lo = k
		}
		if x.High == nil {
			up(ls.lb(x.X, st, depth+1) - lo)
		} else if k, ok := ConstInt(x.High); ok {
			up(k - lo)
		}
	case *ssa.MakeSlice:
		if k, ok := ConstInt(x.Len); ok {
			up(k)
		}
	case *ssa.ChangeType:
		up(ls.lb(x.X, st, depth+1))
	case *ssa.Call:
		ci := InfoOf(&x.Call)
		if ci.Static != nil {
			if h, ok := ResultLenHints[ci.Static]; ok {
				up(h)
			}
		}
		if ci.Is("strings.SplitN") || ci.Is("strings.Split") {
			okN := true
			if ci.Is("strings.SplitN") {
				n, isC := ConstInt(x.Call.Args[2])
				okN = isC && n != 0
			}
			sep, isS := ConstString(x.Call.Args[1])
			if okN && isS && sep != "" {
				up(1)
			}
		}
	case *ssa.UnOp:
		if x.Op == token.MUL {
			if al, ok := x.X.(*ssa.Alloc); ok && ls.cells[al] {
				// value loaded: bound recorded at the load (st[v]); nothing structural
				_ = al
			}
		}
	}
	return best
}

// refine applies the fact holding on a CFG edge.
func (ls *LenState) refine(b *ssa.BasicBlock, st map[ssa.Value]int64, f Fact) {
	set := func(v ssa.Value, n int64) {
		v = ls.c(v)
		if n > st[v] {
			st[v] = n
		}
		// a load of a tracked cell made in the branching block with no
		// store to the cell after it: the cell has that bound too
		if u, ok := v.(*ssa.UnOp); ok && u.Op == token.MUL && u.Block() == b {
			if al, ok := u.X.(*ssa.Alloc); ok && ls.cells[al] {
				after := false
				clean := true
				for _, in := range b.Instrs {
					if in == ssa.Instruction(u) {
						after = true
						continue
					}
					if s, ok := in.(*ssa.Store); ok && after && s.Addr == ssa.Value(al) {
						clean = false
					}
				}
				if clean && n > st[al] {
					st[al] = n
				}
			}
		}
	}
	if f.Op == token.ILLEGAL {
		if call, ok := f.X.(*ssa.Call); ok && !f.Neg {
			ci := InfoOf(&call.Call)
			if ci.Is("strings.HasPrefix") || ci.Is("strings.HasSuffix") {
				if lit, ok := ConstString(call.Call.Args[1]); ok && isASCII(lit) {
					arg := call.Call.Args[0]
					if inner, ok := arg.(*ssa.Call); ok && InfoOf(&inner.Call).Is("strings.ToLower") {
						arg = inner.Call.Args[0]
					}
					set(arg, int64(len(lit)))
				}
			}
		}
		return
	}
	X, Y, op := f.X, f.Y, f.Op
	if _, ok := lenOf(Y); ok {
		X, Y = Y, X
		op = flipOp(op)
	} else if _, ok := ConstString(X); ok {
		X, Y = Y, X
		op = flipOp(op)
	}
	if lx, ok := lenOf(X); ok {
		if n, ok := ConstInt(Y); ok {
			switch op {
			case token.GTR:
				set(lx, n+1)
			case token.GEQ:
				set(lx, n)
			case token.EQL:
				set(lx, n)
			case token.NEQ:
				// len != n while len >= n is known  ⇒  len >= n+1
				if ls.lb(lx, st, 0) >= n {
					set(lx, n+1)
				}
			}
		}
		return
	}
	if s, ok := ConstString(Y); ok && s == "" && op == token.NEQ {
		set(X, 1)
	}
}

// LenFlow runs the analysis on fn.
func LenFlow(fn *ssa.Function) *LenState {
	ls := &LenState{fn: fn, in: map[*ssa.BasicBlock]map[ssa.Value]int64{}, cells: map[*ssa.Alloc]bool{}, canon: map[ssa.Value]ssa.Value{}}
	// loads of the same element of the same (never written) slice are one value
	type ek2 struct {
		x ssa.Value
		k int64
	}
	first := map[ek2]ssa.Value{}
	written := map[ssa.Value]bool{}
	Instrs(fn, func(in ssa.Instruction) {
		if st, ok := in.(*ssa.Store); ok {
			if ia, ok := st.Addr.(*ssa.IndexAddr); ok {
				written[ia.X] = true
			}
		}
	})
	Instrs(fn, func(in ssa.Instruction) {
		u, ok := in.(*ssa.UnOp)
		if !ok || u.Op != token.MUL {
			return
		}
		ia, ok := u.X.(*ssa.IndexAddr)
		if !ok || written[ia.X] {
			return
		}
		k, isC := ConstInt(ia.Index)
		if !isC {
			return
		}
		key := ek2{ia.X, k}
		if f, ok := first[key]; ok {
			ls.canon[u] = f
		} else {
			first[key] = u
		}
	})
	Instrs(fn, func(in ssa.Instruction) {
		if al, ok := in.(*ssa.Alloc); ok {
			okc := true
			for _, st := range StoresTo(al) {
				if st.Parent() != fn {
					okc = false
				}
			}
			// the address must not escape other than into closures (reads) and loads/stores
			for _, r := range Refs(al) {
				switch r.(type) {
				case *ssa.Store, *ssa.UnOp, *ssa.MakeClosure, *ssa.DebugRef:
				default:
					okc = false
				}
			}
			if okc {
				ls.cells[al] = true
			}
		}
	})
	if len(fn.Blocks) == 0 {
		return ls
	}
	// out-edge states
	type ek struct {
		b *ssa.BasicBlock
		i int
	}
	outs := map[ek]map[ssa.Value]int64{}
	ls.in[fn.Blocks[0]] = map[ssa.Value]int64{}
	work := []*ssa.BasicBlock{fn.Blocks[0]}
	inWork := map[*ssa.BasicBlock]bool{fn.Blocks[0]: true}
	iter := 0
	for len(work) > 0 && iter < 10000 {
		iter++
		b := work[0]
		work = work[1:]
		inWork[b] = false
		st := cloneLS(ls.in[b])
		// phis first: min over incoming edges
		for _, in := range b.Instrs {
			phi, ok := in.(*ssa.Phi)
			if !ok {
				break
			}
			first := true
			var m int64
			for i, e := range phi.Edges {
				pred := b.Preds[i]
				// which out-edge of pred leads here
				var pst map[ssa.Value]int64
				for si, s := range pred.Succs {
					if s == b {
						if o, ok := outs[ek{pred, si}]; ok {
							pst = o
						}
					}
				}
				if pst == nil {
					continue // edge not yet reached
				}
				v := ls.lb(e, pst, 0)
				if first || v < m {
					m = v
					first = false
				}
			}
			if !first && m > 0 {
				st[phi] = m
			} else {
				delete(st, phi)
			}
		}
		for _, in := range b.Instrs {
			switch x := in.(type) {
			case *ssa.Store:
				if al, ok := x.Addr.(*ssa.Alloc); ok && ls.cells[al] {
					st[al] = ls.lb(x.Val, st, 0)
				}
			case *ssa.UnOp:
				if x.Op == token.MUL {
					if al, ok := x.X.(*ssa.Alloc); ok && ls.cells[al] {
						if st[al] > 0 {
							st[x] = st[al]
						}
					}
				}
			}
		}
		for si, s := range b.Succs {
			o := cloneLS(st)
			if iff, ok := b.Instrs[len(b.Instrs)-1].(*ssa.If); ok && b.Succs[0] != b.Succs[1] {
				ls.refine(b, o, CondFact(iff.Cond, si == 0))
			}
			outs[ek{b, si}] = o
			// merge into successor
			cur, seen := ls.in[s]
			changed := false
			if !seen {
				ls.in[s] = cloneLS(o)
				changed = true
			} else {
				for k, v := range cur {
					if ov := o[k]; ov < v {
						if ov == 0 {
							delete(cur, k)
						} else {
							cur[k] = ov
						}
						changed = true
					}
				}
			}
			if changed && !inWork[s] {
				work = append(work, s)
				inWork[s] = true
			}
		}
	}
	return ls
}

// ParamLenHints: lower bounds on len(param) established by every call site
// (filled by ComputeParamLenHints for unexported helpers).
var ParamLenHints = map[ssa.Value]int64{}

// ComputeParamLenHints derives, for each unexported function among fns whose
// call sites are all static calls within fns, the minimum over its call sites
// of the length lower bound of each slice/string argument.
// ResultLenHints: for a module function with a single string/slice result,
// a lower bound of the length of what it returns (minimum over its returns).
var ResultLenHints = map[*ssa.Function]int64{}

func computeResultLenHints(fns []*ssa.Function) {
	for _, f := range fns {
		if f.Blocks == nil || f.Signature.Results().Len() != 1 {
			continue
		}
		switch f.Signature.Results().At(0).Type().Underlying().(type) {
		case *types.Slice, *types.Basic:
		default:
			continue
		}
		if b, ok := f.Signature.Results().At(0).Type().Underlying().(*types.Basic); ok && b.Kind() != types.String {
			continue
		}
		rets := Returns(f)
		if len(rets) == 0 {
			continue
		}
		fl := LenFlow(f)
		best := int64(-1)
		for _, r := range rets {
			n := fl.At(r.Results[0], r)
			if best < 0 || n < best {
				best = n
			}
		}
		if best > 0 {
			ResultLenHints[f] = best
		}
	}
}

func ComputeParamLenHints(fns []*ssa.Function) {
	computeResultLenHints(fns)
	type site struct {
		caller *ssa.Function
		call   *ssa.Call
	}
	sites := map[*ssa.Function][]site{}
	for _, f := range fns {
		Instrs(f, func(in ssa.Instruction) {
			if call, ok := in.(*ssa.Call); ok {
				if ci := InfoOf(&call.Call); ci.Static != nil {
					sites[ci.Static] = append(sites[ci.Static], site{f, call})
				}
			}
		})
	}
	flows := map[*ssa.Function]*LenState{}
	for _, f := range fns {
		if f.Object() != nil && f.Object().Exported() || f.Parent() != nil || len(sites[f]) == 0 {
			continue
		}
		for i, par := range f.Params {
			switch par.Type().Underlying().(type) {
			case *types.Slice, *types.Basic:
			default:
				continue
			}
			best := int64(-1)
			for _, s := range sites[f] {
				fl := flows[s.caller]
				if fl == nil {
					fl = LenFlow(s.caller)
					flows[s.caller] = fl
				}
				n := fl.At(s.call.Call.Args[i], s.call)
				if best < 0 || n < best {
					best = n
				}
			}
			if best > 0 {
				ParamLenHints[par] = best
			}
		}
	}
}

// At returns the lower bound of len(v) just before instr.
func (ls *LenState) At(v ssa.Value, instr ssa.Instruction) int64 {
	b := instr.Block()
	st := cloneLS(ls.in[b])
	for _, in := range b.Instrs {
		if in == instr {
			break
		}
		switch x := in.(type) {
		case *ssa.Store:
			if al, ok := x.Addr.(*ssa.Alloc); ok && ls.cells[al] {
				st[al] = ls.lb(x.Val, st, 0)
			}
		case *ssa.UnOp:
			if x.Op == token.MUL {
				if al, ok := x.X.(*ssa.Alloc); ok && ls.cells[al] && st[al] > 0 {
					st[x] = st[al]
				}
			}
		}
	}
	return ls.lb(v, st, 0)
}

func (ls *LenState) describe(n int64) string {
	return fmt.Sprintf("forward length analysis gives len >= %d here", n)
}
