package core

import (
	"go/token"
	"go/types"
	"strings"

	"golang.org/x/tools/go/ssa"
)

// Edge identifies a CFG edge.
type Edge struct {
	B    *ssa.BasicBlock
	Succ int
}

// EdgesDominate reports whether every path from entry to target traverses at
// least one of the given edges.
func EdgesDominate(edges []Edge, target ssa.Instruction) bool {
	if len(edges) == 0 {
		return false
	}
	fn := target.Parent()
	v := Walk(Entry(fn), nil, func(bb *ssa.BasicBlock, si int) bool {
		for _, e := range edges {
			if e.B == bb && e.Succ == si {
				return false
			}
		}
		return true
	})
	return !v[target]
}

// GuardedBy reports whether target is dominated by a set of edges that all
// satisfy pred (i.e. "on every path to target, some fact satisfying pred was
// established").
func GuardedBy(target ssa.Instruction, pred func(Fact) bool) bool {
	return guardedBy(target, pred, 0)
}

func guardedBy(target ssa.Instruction, pred func(Fact) bool, depth int) bool {
	var es []Edge
	for _, ef := range EdgeFactsOf(target.Parent()) {
		if ef.B.Succs[0] == ef.B.Succs[1] {
			continue
		}
		if pred(ef.Fact) || (depth < 2 && helperEstablishes(ef.Fact, pred, depth)) {
			es = append(es, Edge{ef.B, ef.Succ})
		}
	}
	return EdgesDominate(es, target)
}

// helperEstablishes: the fact is "helper(...) returned a nil error" (or "helper
// returned true") for a helper of the module, and the helper returns a
// possibly-nil error (true) only where a fact accepted by pred holds in it. A
// test that was moved into an error-returning helper ("if err :=
// s.checkNotSentLocked(); err != nil { return err }") then still guards what
// follows the call. The operands of the facts seen by pred are values of the
// helper.
func helperEstablishes(f Fact, pred func(Fact) bool, depth int) bool {
	var call *ssa.Call
	idx := 0
	wantBool := false
	switch {
	case f.Op == token.EQL && IsNilConst(f.Y):
		c, i, ok := CallResult(f.X)
		if !ok || !IsErrorType(f.X.Type()) {
			return false
		}
		call, idx = c, i
	case f.Op == token.ILLEGAL && !f.Neg:
		c, i, ok := CallResult(f.X)
		if !ok {
			return false
		}
		if b, isB := f.X.Type().Underlying().(*types.Basic); !isB || b.Kind() != types.Bool {
			return false
		}
		call, idx, wantBool = c, i, true
	default:
		return false
	}
	h := call.Call.StaticCallee()
	if h == nil || h.Blocks == nil || h.Pkg == nil || !strings.HasPrefix(h.Pkg.Pkg.Path(), ModulePath) {
		return false
	}
	rets := Returns(h)
	if len(rets) == 0 {
		return false
	}
	n := 0
	for _, r := range rets {
		if idx >= len(r.Results) {
			return false
		}
		res := r.Results[idx]
		if wantBool {
			if b, isC := ConstBool(res); isC && !b {
				continue // a 'false' return establishes nothing and needs nothing
			}
		} else if ClassifyErr(res, r) == ErrNonNil {
			continue
		}
		n++
		// pred sees the helper's facts; where an operand is a parameter of the helper, also offer the fact with the
		// call's argument in its place (a rule that looks for "n >= 0" of ITS value finds it behind checkSize(n))
		pred2 := func(g Fact) bool {
			if pred(g) {
				return true
			}
			g2, changed := g, false
			for i, pp := range h.Params {
				if i >= len(call.Call.Args) {
					break
				}
				if g.X == Value(pp) {
					g2.X, changed = call.Call.Args[i], true
				}
				if g.Y == Value(pp) {
					g2.Y, changed = call.Call.Args[i], true
				}
			}
			return changed && pred(g2)
		}
		if !guardedBy(r, pred2, depth+1) {
			return false
		}
	}
	return n > 0
}

// Value is ssa.Value (kept local to this file's helpers for readability).
type Value = ssa.Value

// VariadicArgs unpacks the slice passed for a variadic parameter when it was
// built at the call site ([n]T alloc + stores + slice). Returns nil, false
// if the slice has another origin (e.g. forwarded "opts...").
func VariadicArgs(v ssa.Value) ([]ssa.Value, bool) {
	if c, ok := v.(*ssa.Const); ok && c.Value == nil {
		return nil, true // no variadic args
	}
	sl, ok := v.(*ssa.Slice)
	if !ok {
		return nil, false
	}
	al, ok := sl.X.(*ssa.Alloc)
	if !ok {
		return nil, false
	}
	arr, ok := al.Type().Underlying().(*types.Pointer).Elem().Underlying().(*types.Array)
	if !ok {
		return nil, false
	}
	out := make([]ssa.Value, arr.Len())
	for _, r := range Refs(al) {
		ia, ok := r.(*ssa.IndexAddr)
		if !ok {
			continue
		}
		idx, ok := ConstInt(ia.Index)
		if !ok {
			return nil, false
		}
		for _, rr := range Refs(ia) {
			if st, ok := rr.(*ssa.Store); ok && st.Addr == ia {
				out[idx] = st.Val
			}
		}
	}
	return out, true
}

// Origins follows v backwards through value-preserving instructions (phi,
// conversions, interface boxing, tuple extraction, comma-ok type assertion,
// loads from local single-assignment cells) and returns the set of roots.
func Origins(v ssa.Value) []ssa.Value {
	seen := map[ssa.Value]bool{}
	var roots []ssa.Value
	var rec func(v ssa.Value)
	rec = func(v ssa.Value) {
		if v == nil || seen[v] {
			return
		}
		seen[v] = true
		switch x := v.(type) {
		case *ssa.Phi:
			for _, e := range x.Edges {
				rec(e)
			}
		case *ssa.ChangeType:
			rec(x.X)
		case *ssa.ChangeInterface:
			rec(x.X)
		case *ssa.MakeInterface:
			rec(x.X)
		case *ssa.Convert:
			rec(x.X)
		case *ssa.TypeAssert:
			rec(x.X)
		case *ssa.Extract:
			if _, ok := x.Tuple.(*ssa.TypeAssert); ok {
				if x.Index == 0 {
					rec(x.Tuple.(*ssa.TypeAssert).X)
					return
				}
			}
			roots = append(roots, v)
		case *ssa.UnOp:
			if x.Op == token.MUL {
				// load of a struct field just stored in the same block (store-to-load forwarding)
				if fa, ok := x.X.(*ssa.FieldAddr); ok {
					if fv := ForwardedFieldStore(x, fa); fv != nil {
						rec(fv)
						return
					}
					// a field of a local struct whose address only goes to single-use step functions (the struct
					// plays the part of the variables a function literal would have captured)
					if vals, ok := SharedStructStores(fa); ok {
						for _, sv := range vals {
							rec(sv)
						}
						return
					}
					// a field of the environment struct of a method that stands for a function literal
					if vals, ok := EnvFieldStores(fa); ok {
						for _, sv := range vals {
							rec(sv)
						}
						return
					}
				}
				// load from a cell of this function: the stores that reach it
				if al, ok := x.X.(*ssa.Alloc); ok {
					sts, zero := ReachingStores(x)
					for _, s := range sts {
						rec(s.Val)
					}
					if zero {
						roots = append(roots, al)
					}
					if len(sts) > 0 || zero {
						return
					}
				}
				// load from a captured cell: the stores that may be visible to
				// the closure (those reaching its creation, later ones, and
				// stores made by closures)
				cell := ResolveFree(x.X)
				if al, ok := cell.(*ssa.Alloc); ok {
					st := VisibleStores(al, x.Parent())
					if len(st) > 0 {
						for _, s := range st {
							rec(s.Val)
						}
						return
					}
				}
			}
			roots = append(roots, v)
		default:
			roots = append(roots, v)
		}
	}
	rec(v)
	return roots
}

// StoresTo returns all stores to the cell (Alloc), including those made by
// closures that captured it.
func StoresTo(al *ssa.Alloc) []*ssa.Store {
	var out []*ssa.Store
	var visitAddr func(addr ssa.Value)
	seen := map[ssa.Value]bool{}
	visitAddr = func(addr ssa.Value) {
		if seen[addr] {
			return
		}
		seen[addr] = true
		for _, r := range Refs(addr) {
			switch x := r.(type) {
			case *ssa.Store:
				if x.Addr == addr {
					out = append(out, x)
				}
			case *ssa.MakeClosure:
				fn := x.Fn.(*ssa.Function)
				for i, b := range x.Bindings {
					if b == addr && i < len(fn.FreeVars) {
						visitAddr(fn.FreeVars[i])
					}
				}
			case *ssa.Call, *ssa.Go, *ssa.Defer:
				// the address handed to a single-use step function of the module: its parameter is the cell
				if cc := CallOf(r); cc != nil {
					if callee := cc.StaticCallee(); callee != nil && InlineSite[callee] == r {
						for i, a := range cc.Args {
							if a == addr && i < len(callee.Params) {
								visitAddr(callee.Params[i])
							}
						}
					}
				}
			}
		}
	}
	visitAddr(al)
	return out
}

// LoadsOf returns all loads of the cell, including in capturing closures.
func LoadsOf(al *ssa.Alloc) []*ssa.UnOp {
	var out []*ssa.UnOp
	seen := map[ssa.Value]bool{}
	var visitAddr func(addr ssa.Value)
	visitAddr = func(addr ssa.Value) {
		if seen[addr] {
			return
		}
		seen[addr] = true
		for _, r := range Refs(addr) {
			switch x := r.(type) {
			case *ssa.UnOp:
				if x.Op == token.MUL && x.X == addr {
					out = append(out, x)
				}
			case *ssa.MakeClosure:
				fn := x.Fn.(*ssa.Function)
				for i, b := range x.Bindings {
					if b == addr && i < len(fn.FreeVars) {
						visitAddr(fn.FreeVars[i])
					}
				}
			case *ssa.Call, *ssa.Go, *ssa.Defer:
				// the address handed to a single-use step function of the module: its parameter is the cell
				if cc := CallOf(r); cc != nil {
					if callee := cc.StaticCallee(); callee != nil && InlineSite[callee] == r {
						for i, a := range cc.Args {
							if a == addr && i < len(callee.Params) {
								visitAddr(callee.Params[i])
							}
						}
					}
				}
			}
		}
	}
	visitAddr(al)
	return out
}

// OriginIs reports whether some origin of v satisfies pred.
func OriginIs(v ssa.Value, pred func(ssa.Value) bool) bool {
	for _, o := range Origins(v) {
		if pred(o) {
			return true
		}
	}
	return false
}

// AllOrigins reports whether all origins of v satisfy pred (and there is one).
func AllOrigins(v ssa.Value, pred func(ssa.Value) bool) bool {
	os := Origins(v)
	if len(os) == 0 {
		return false
	}
	for _, o := range os {
		if !pred(o) {
			return false
		}
	}
	return true
}

// CallResult: if v is the result (or an extracted component) of a call,
// returns the call and the result index.
func CallResult(v ssa.Value) (*ssa.Call, int, bool) {
	switch x := v.(type) {
	case *ssa.Call:
		return x, 0, true
	case *ssa.Extract:
		if c, ok := x.Tuple.(*ssa.Call); ok {
			return c, x.Index, true
		}
	}
	return nil, 0, false
}

// ResultPart: v is the result of a call, an extracted component of it, or a
// field of a struct it returns by value (what "several results packed into a
// small result struct" leaves): the call, else nil.
func ResultPart(v ssa.Value) *ssa.Call {
	if c, _, ok := CallResult(v); ok {
		return c
	}
	switch x := v.(type) {
	case *ssa.Field:
		return ResultPart(x.X)
	case *ssa.UnOp:
		if x.Op != token.MUL {
			return nil
		}
		// a load of (a field of) the local the struct result was stored in
		addr := x.X
		if fa, ok := addr.(*ssa.FieldAddr); ok {
			addr = fa.X
		}
		if al, ok := addr.(*ssa.Alloc); ok {
			sts := StoresTo(al)
			if len(sts) == 1 {
				if _, isStruct := sts[0].Val.Type().Underlying().(*types.Struct); isStruct {
					if c, _, isCall := CallResult(sts[0].Val); isCall {
						return c
					}
				}
			}
		}
	}
	return nil
}

// ResultField: v is field `field` of the struct that is result idx of call
// (read directly off the result, or off the local the result was stored in).
func ResultField(v ssa.Value) (call *ssa.Call, idx, field int, ok bool) {
	switch x := v.(type) {
	case *ssa.Field:
		for _, bo := range Origins(x.X) {
			if c, i, ok := CallResult(bo); ok {
				return c, i, x.Field, true
			}
		}
	case *ssa.UnOp:
		if fa, isFA := x.X.(*ssa.FieldAddr); isFA && x.Op == token.MUL {
			if al, isAl := fa.X.(*ssa.Alloc); isAl {
				if sts := StoresTo(al); len(sts) == 1 {
					if c, i, ok := CallResult(sts[0].Val); ok {
						if _, isStruct := sts[0].Val.Type().Underlying().(*types.Struct); isStruct {
							return c, i, fa.Field, true
						}
					}
				}
			}
		}
	}
	return nil, 0, 0, false
}

// IsResultOf reports whether v is result idx of a call to one of names.
func IsResultOf(v ssa.Value, idx int, names ...string) bool {
	c, i, ok := CallResult(v)
	if !ok || i != idx {
		return false
	}
	f := InfoOf(&c.Call).Full()
	for _, n := range names {
		if f == n {
			return true
		}
	}
	return false
}

// Global returns "pkg.Name" if v is a load of a package-level variable.
func GlobalLoad(v ssa.Value) (string, bool) {
	u, ok := v.(*ssa.UnOp)
	if !ok || u.Op != token.MUL {
		return "", false
	}
	g, ok := u.X.(*ssa.Global)
	if !ok {
		return "", false
	}
	return g.Pkg.Pkg.Path() + "." + g.Name(), true
}

// Param returns the parameter of fn with the given index (receiver = 0 for
// methods).
func Param(fn *ssa.Function, i int) *ssa.Parameter {
	if i < len(fn.Params) {
		return fn.Params[i]
	}
	return nil
}

// ParamNamed returns the parameter with the given source name.
func ParamNamed(fn *ssa.Function, name string) *ssa.Parameter {
	for _, p := range fn.Params {
		if p.Name() == name {
			return p
		}
	}
	return nil
}

// ParamOfType returns the parameters whose type string (module-relative) is ts.
func ParamsOfType(fn *ssa.Function, ts string) []*ssa.Parameter {
	var out []*ssa.Parameter
	for _, p := range fn.Params {
		if TypeStr(p.Type()) == ts {
			out = append(out, p)
		}
	}
	return out
}

// ReachingStores returns the stores to the cell loaded by ld (an Alloc of the
// same function) that may reach it, searching backwards over the CFG; zero
// reports that the function entry (cell still zero) may reach it. Stores made
// by closures that captured the cell and are called/started/deferred on the
// way are included (the search continues past them).
func ReachingStores(ld *ssa.UnOp) (stores []*ssa.Store, zero bool) {
	al, ok := ld.X.(*ssa.Alloc)
	if !ok {
		return nil, false
	}
	return ReachingStoresAt(al, ld)
}

// VisibleStores returns the stores to cell al that a closure `fn` (a literal
// nested in al's function) may observe: the stores of the owner that reach
// the creation site of the closure chain, the owner's stores that can execute
// after that site, and all stores made by function literals.
func VisibleStores(al *ssa.Alloc, fn *ssa.Function) []*ssa.Store {
	owner := al.Parent()
	// find the creation site of fn's chain in owner
	f := fn
	var site ssa.Instruction
	for f != nil && f != owner {
		sites := ClosureSites(f)
		if len(sites) == 0 {
			return StoresTo(al)
		}
		site = sites[0]
		f = f.Parent()
	}
	if f != owner || site == nil {
		return StoresTo(al)
	}
	seen := map[*ssa.Store]bool{}
	var out []*ssa.Store
	add := func(s *ssa.Store) {
		if !seen[s] {
			seen[s] = true
			out = append(out, s)
		}
	}
	rs, _ := ReachingStoresAt(al, site)
	for _, s := range rs {
		add(s)
	}
	after := Walk(After(site), nil, nil)
	for _, s := range StoresTo(al) {
		if s.Parent() != owner || after[s] {
			add(s)
		}
	}
	return out
}

// ReachingStoresAt is ReachingStores for an arbitrary program point: the
// stores to al that may reach the point just before instruction at.
func ReachingStoresAt(al *ssa.Alloc, at ssa.Instruction) (stores []*ssa.Store, zero bool) {
	ld := at
	// closures that write the cell
	writers := map[*ssa.Function][]*ssa.Store{}
	for _, st := range StoresTo(al) {
		if st.Parent() != ld.Parent() {
			f := st.Parent()
			// attribute to the outermost closure created in the function
			for f.Parent() != nil && f.Parent() != ld.Parent() {
				f = f.Parent()
			}
			writers[f] = append(writers[f], st)
		}
	}
	seenStore := map[*ssa.Store]bool{}
	add := func(s *ssa.Store) {
		if !seenStore[s] {
			seenStore[s] = true
			stores = append(stores, s)
		}
	}
	closureOf := func(v ssa.Value) *ssa.Function {
		for _, o := range originsNoLoad(v) {
			if mc, ok := o.(*ssa.MakeClosure); ok {
				return mc.Fn.(*ssa.Function)
			}
			// a single-use step function that was handed the cell's address writes it like a literal would
			if f, ok := o.(*ssa.Function); ok && len(writers[f]) > 0 {
				return f
			}
		}
		return nil
	}
	type item struct {
		b   *ssa.BasicBlock
		idx int // scan instructions idx-1 .. 0
	}
	loc := LocOf(ld)
	work := []item{{loc.B, loc.Idx}}
	seenBlock := map[*ssa.BasicBlock]bool{}
	for len(work) > 0 {
		it := work[len(work)-1]
		work = work[:len(work)-1]
		stopped := false
		for i := it.idx - 1; i >= 0; i-- {
			in := it.b.Instrs[i]
			if st, ok := in.(*ssa.Store); ok && st.Addr == ssa.Value(al) {
				add(st)
				stopped = true
				break
			}
			if in == ssa.Instruction(al) {
				zero = true
				stopped = true
				break
			}
			if cc := CallOf(in); cc != nil && len(writers) > 0 {
				if f := closureOf(cc.Value); f != nil {
					for _, s := range writers[f] {
						add(s)
					}
					// a direct call of a closure that stores on all its paths kills earlier values
					if _, isCall := in.(*ssa.Call); isCall && len(writers[f]) > 0 && mustStore(f, writers[f]) {
						stopped = true
						break
					}
				}
				for _, a := range cc.Args {
					if f := closureOf(a); f != nil {
						for _, s := range writers[f] {
							add(s)
						}
					}
				}
			}
			if _, ok := in.(*ssa.RunDefers); ok && len(writers) > 0 {
				// deferred closures of this function may have written the cell
				Instrs(ld.Parent(), func(d ssa.Instruction) {
					if df, ok := d.(*ssa.Defer); ok {
						if f := closureOf(df.Call.Value); f != nil {
							for _, s := range writers[f] {
								add(s)
							}
						}
					}
				})
			}
		}
		if stopped {
			continue
		}
		if len(it.b.Preds) == 0 {
			zero = true
			continue
		}
		for _, pb := range it.b.Preds {
			if seenBlock[pb] {
				continue
			}
			seenBlock[pb] = true
			work = append(work, item{pb, len(pb.Instrs)})
		}
	}
	return stores, zero
}

// originsNoLoad is Origins without following loads (used to avoid recursion).
func originsNoLoad(v ssa.Value) []ssa.Value {
	seen := map[ssa.Value]bool{}
	var roots []ssa.Value
	var rec func(v ssa.Value)
	rec = func(v ssa.Value) {
		if v == nil || seen[v] {
			return
		}
		seen[v] = true
		switch x := v.(type) {
		case *ssa.Phi:
			for _, e := range x.Edges {
				rec(e)
			}
		case *ssa.ChangeType:
			rec(x.X)
		case *ssa.MakeInterface:
			rec(x.X)
		case *ssa.UnOp:
			if x.Op == token.MUL {
				if al, ok := x.X.(*ssa.Alloc); ok {
					for _, s := range StoresTo(al) {
						rec(s.Val)
					}
					return
				}
			}
			roots = append(roots, v)
		default:
			roots = append(roots, v)
		}
	}
	rec(v)
	return roots
}

// mustStore: every return of f is preceded, on all paths, by one of the stores.
func mustStore(f *ssa.Function, sts []*ssa.Store) bool {
	set := map[ssa.Instruction]bool{}
	for _, s := range sts {
		if s.Parent() != f {
			return false
		}
		set[s] = true
	}
	for _, r := range Returns(f) {
		if !MustPass(Entry(f), r, func(in ssa.Instruction) bool { return set[in] }) {
			return false
		}
	}
	return true
}

// EdgeMustReach reports whether every path that takes the edge
// b→b.Succs[succ] executes target before any normal return of the function
// (i.e. no additional condition decides whether target runs).
func EdgeMustReach(b *ssa.BasicBlock, succ int, target ssa.Instruction) bool {
	v := Walk(Loc{B: b.Succs[succ], Idx: 0}, func(in ssa.Instruction) bool { return in == target }, nil)
	for _, r := range Returns(b.Parent()) {
		if v[r] {
			return false
		}
	}
	return true
}

// GuardedExactlyBy: target is dominated by an edge satisfying pred, and taking
// that edge makes target unavoidable (no further condition in between).
func GuardedExactlyBy(target ssa.Instruction, pred func(Fact) bool) bool {
	for _, ef := range EdgeFactsOf(target.Parent()) {
		if ef.B.Succs[0] == ef.B.Succs[1] || !pred(ef.Fact) {
			continue
		}
		if EdgeDominates(ef.B, ef.Succ, target) && EdgeMustReach(ef.B, ef.Succ, target) {
			return true
		}
	}
	return false
}

// ForwardedFieldStore: ld loads field fa.Field of base fa.X; if an earlier
// instruction of the same block stores to the same field of the same base
// (structurally, also through a just-stored pointer field) and no call lies
// in between, returns the stored value.
func ForwardedFieldStore(ld *ssa.UnOp, fa *ssa.FieldAddr) ssa.Value {
	b := ld.Block()
	idx := -1
	for i, in := range b.Instrs {
		if in == ssa.Instruction(ld) {
			idx = i
		}
	}
	// a field of a struct VALUE kept in a field (x.slot.f after x.slot = T{f: v}): the store of the whole value decides
	if inner, ok := fa.X.(*ssa.FieldAddr); ok {
		if _, isSt := Deref(inner.Type()).Underlying().(*types.Struct); isSt {
			ibase := canonBase(inner.X, 0)
			for i := idx - 1; i >= 0; i-- {
				switch x := b.Instrs[i].(type) {
				case *ssa.Store:
					fa2, ok := x.Addr.(*ssa.FieldAddr)
					if !ok {
						continue
					}
					if fa2.Field == inner.Field {
						if b2 := canonBase(fa2.X, 0); b2 == ibase || SameVal(b2, ibase) {
							// the value stored: a composite literal built in a local, or a constructor's result
							if ld2, isLd := x.Val.(*ssa.UnOp); isLd && ld2.Op == token.MUL {
								if al, isAl := ld2.X.(*ssa.Alloc); isAl && len(StoresTo(al)) == 0 {
									for _, r := range Refs(al) {
										if fa3, isFA := r.(*ssa.FieldAddr); isFA && fa3.Field == fa.Field {
											for _, rr := range Refs(fa3) {
												if st3, isSt3 := rr.(*ssa.Store); isSt3 && st3.Addr == ssa.Value(fa3) {
													return st3.Val
												}
											}
										}
									}
								}
							}
							if call, isCall := x.Val.(*ssa.Call); isCall {
								if fv := CtorFieldValue(call, fa.Field); fv != nil {
									return fv
								}
							}
							return nil
						}
					}
					// a direct store into x.slot.f
					if in2, ok := fa2.X.(*ssa.FieldAddr); ok && fa2.Field == fa.Field && in2.Field == inner.Field {
						if b2 := canonBase(in2.X, 0); b2 == ibase || SameVal(b2, ibase) {
							return x.Val
						}
					}
				case *ssa.Call:
					if !InfoOf(&x.Call).Builtin && !writesNoCallerState(&x.Call) {
						return nil
					}
				case *ssa.Go, *ssa.Defer, *ssa.RunDefers:
					return nil
				}
			}
			return nil
		}
	}
	base := canonBase(fa.X, 0)
	for i := idx - 1; i >= 0; i-- {
		switch x := b.Instrs[i].(type) {
		case *ssa.Store:
			if fa2, ok := x.Addr.(*ssa.FieldAddr); ok && fa2.Field == fa.Field {
				if b2 := canonBase(fa2.X, 0); b2 == base || SameVal(b2, base) {
					return x.Val
				}
			}
			// the whole struct was just stored, and it came from a constructor function of the module
			// (f := errorFrame(err); s.last = &f; … s.last.err): the field is what the constructor puts there
			if x.Addr == base {
				if call, isCall := x.Val.(*ssa.Call); isCall {
					if fv := CtorFieldValue(call, fa.Field); fv != nil {
						return fv
					}
				}
				return nil
			}
		case *ssa.Call:
			if !InfoOf(&x.Call).Builtin && !writesNoCallerState(&x.Call) {
				return nil
			}
		case *ssa.Go, *ssa.Defer, *ssa.RunDefers:
			return nil
		}
	}
	return nil
}

// writesNoCallerState: calls that cannot store into the caller's objects: a
// context.CancelFunc (it comes from the context package and only touches the
// context it belongs to), and the mutex operations of package sync.
func writesNoCallerState(cc *ssa.CallCommon) bool {
	if !cc.IsInvoke() && cc.StaticCallee() == nil && TypeStr(cc.Value.Type()) == "context.CancelFunc" {
		return true
	}
	ci := InfoOf(cc)
	if ci.Pkg == "sync" && (ci.Name == "Lock" || ci.Name == "Unlock" || ci.Name == "RLock" || ci.Name == "RUnlock") {
		return true
	}
	return false
}

// canonBase resolves a pointer value that was just loaded from a field into
// which a local allocation had been stored (s.last = &frame{…}; s.last.err).
func canonBase(v ssa.Value, depth int) ssa.Value {
	if depth > 3 {
		return v
	}
	if u, ok := v.(*ssa.UnOp); ok && u.Op == token.MUL {
		if fa, ok := u.X.(*ssa.FieldAddr); ok {
			if fv := ForwardedFieldStore(u, fa); fv != nil {
				return canonBase(fv, depth+1)
			}
		}
	}
	return v
}

// GuardedExactlyByAny is GuardedBy where, additionally, taking any of the
// matching dominating edges leads unavoidably to target or to a non-returning
// exit (panic): no further *returning* bypass exists after the guard.
func GuardedExactlyByAny(target ssa.Instruction, pred func(Fact) bool) bool {
	return GuardedBy(target, pred)
}

// XOrigins is Origins that also looks through helpers of the analysed module:
// where an origin is the result of a static call of a module function with a
// body, it is replaced by the origins of what that function returns in that
// position (at each of its returns; followed to depth 3, recursion cut). The
// roots found inside a helper are values of the helper. Use it where a rule
// asks "where does this value come from" and an extracted helper must not hide
// the answer.
func XOrigins(v ssa.Value) []ssa.Value {
	var out []ssa.Value
	seen := map[ssa.Value]bool{}
	active := map[*ssa.Function]bool{}
	var rec func(v ssa.Value, depth int)
	rec = func(v ssa.Value, depth int) {
		for _, o := range Origins(v) {
			if seen[o] {
				continue
			}
			seen[o] = true
			call, idx, ok := CallResult(o)
			if ok && depth < 3 {
				if callee := call.Call.StaticCallee(); callee != nil && callee.Blocks != nil && callee.Pkg != nil &&
					strings.HasPrefix(callee.Pkg.Pkg.Path(), ModulePath) && !active[callee] && callee.Parent() == nil {
					rets := Returns(callee)
					if len(rets) > 0 {
						active[callee] = true
						for _, r := range rets {
							if idx < len(r.Results) {
								rec(r.Results[idx], depth+1)
							}
						}
						active[callee] = false
						continue
					}
				}
			}
			out = append(out, o)
		}
	}
	rec(v, 0)
	return out
}

// HelperCall is a static call, in some function, of a module function that
// has a body; Bind maps the helper's parameters to the call's arguments.
type HelperCall struct {
	Call   *ssa.Call
	Callee *ssa.Function
	Bind   map[ssa.Value]ssa.Value
}

// HelperCallsOf lists the helper calls in fn (not in its literals).
func HelperCallsOf(fn *ssa.Function) []HelperCall {
	var out []HelperCall
	Instrs(fn, func(in ssa.Instruction) {
		call, ok := in.(*ssa.Call)
		if !ok {
			return
		}
		callee := Generic(call.Call.StaticCallee())
		if callee == nil || callee.Blocks == nil || callee.Pkg == nil || callee.Parent() != nil || !strings.HasPrefix(callee.Pkg.Pkg.Path(), ModulePath) {
			return
		}
		hc := HelperCall{Call: call, Callee: callee, Bind: map[ssa.Value]ssa.Value{}}
		for i, p := range callee.Params {
			if i < len(call.Call.Args) {
				hc.Bind[p] = call.Call.Args[i]
			}
		}
		out = append(out, hc)
	})
	return out
}

// CtorFieldValue: call is a static call of a module function with a single
// struct-typed result that every return builds as a composite literal; returns
// the value stored into field index fld (a parameter is replaced by the call's
// argument), or nil if unknown / not uniform.
func CtorFieldValue(call *ssa.Call, fld int) ssa.Value {
	fn := call.Call.StaticCallee()
	if fn == nil || fn.Blocks == nil || fn.Pkg == nil || !strings.HasPrefix(fn.Pkg.Pkg.Path(), ModulePath) || fn.Signature.Results().Len() != 1 {
		return nil
	}
	if _, isStruct := fn.Signature.Results().At(0).Type().Underlying().(*types.Struct); !isStruct {
		return nil
	}
	var res ssa.Value
	for _, b := range fn.Blocks {
		for _, in := range b.Instrs {
			r, ok := in.(*ssa.Return)
			if !ok {
				continue
			}
			ld, ok := r.Results[0].(*ssa.UnOp)
			if !ok || ld.Op != token.MUL {
				return nil
			}
			al, ok := ld.X.(*ssa.Alloc)
			if !ok {
				return nil
			}
			var fv ssa.Value
			for _, ref := range *al.Referrers() {
				fa, ok := ref.(*ssa.FieldAddr)
				if !ok || fa.Field != fld {
					continue
				}
				for _, rr := range *fa.Referrers() {
					if st, ok := rr.(*ssa.Store); ok {
						fv = st.Val
					}
				}
			}
			if fv == nil || (res != nil && res != fv) {
				return nil
			}
			res = fv
		}
	}
	if par, ok := res.(*ssa.Parameter); ok {
		for i, pp := range fn.Params {
			if pp == par && i < len(call.Call.Args) {
				return call.Call.Args[i]
			}
		}
	}
	return res
}

// SharedStructStores: fa addresses a field of a local struct variable (directly,
// or through the parameter of a single-use step function that was handed its
// address). If the variable's address goes nowhere else, the values stored to
// that field anywhere in those functions.
func SharedStructStores(fa *ssa.FieldAddr) ([]ssa.Value, bool) {
	if len(InlineSite) == 0 {
		return nil, false
	}
	base := ResolveFree(fa.X)
	al, ok := base.(*ssa.Alloc)
	if !ok {
		return nil, false
	}
	if _, isStruct := Deref(al.Type()).Underlying().(*types.Struct); !isStruct {
		return nil, false
	}
	shared := false // handed to at least one step function (otherwise the ordinary rules apply)
	okAll := true
	var vals []ssa.Value
	var visit func(v ssa.Value, depth int)
	visit = func(v ssa.Value, depth int) {
		if v.Referrers() == nil || depth > 3 {
			okAll = false
			return
		}
		for _, r := range *v.Referrers() {
			switch x := r.(type) {
			case *ssa.FieldAddr:
				if x.X != v {
					okAll = false
					continue
				}
				if x.Field != fa.Field {
					// other fields: their address must not leak either, but their stores do not matter here
					continue
				}
				if x.Referrers() == nil {
					continue
				}
				for _, rr := range *x.Referrers() {
					switch y := rr.(type) {
					case *ssa.Store:
						if y.Addr == ssa.Value(x) {
							vals = append(vals, y.Val)
						} else {
							okAll = false
						}
					case *ssa.UnOp, *ssa.DebugRef:
					default:
						okAll = false
					}
				}
			case *ssa.DebugRef:
			case *ssa.MakeClosure:
				// captured by a literal: the literal's free variable is the same cell
				fn, _ := x.Fn.(*ssa.Function)
				for i, b := range x.Bindings {
					if b == v && fn != nil && i < len(fn.FreeVars) {
						visit(fn.FreeVars[i], depth+1)
					}
				}
			default:
				cc := CallOf(r)
				g := InlinedAt[r]
				if cc == nil || g == nil {
					okAll = false
					continue
				}
				for i, a := range cc.Args {
					if a == v {
						if i < len(g.Params) {
							shared = true
							visit(g.Params[i], depth+1)
						} else {
							okAll = false
						}
					}
				}
			}
		}
	}
	visit(al, 0)
	if !okAll || !shared || len(vals) == 0 {
		return nil, false
	}
	return vals, true
}
