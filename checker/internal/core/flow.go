package core

import (
	"go/constant"
	"go/token"
	"go/types"
	"strings"

	"golang.org/x/tools/go/ssa"
)

// ---------------------------------------------------------------------------
// Instruction-level reachability with cut points.

// Loc is a program point: before instruction Idx of block B.
type Loc struct {
	B   *ssa.BasicBlock
	Idx int
}

// LocOf returns the location of instr.
func LocOf(instr ssa.Instruction) Loc {
	b := instr.Block()
	for i, in := range b.Instrs {
		if in == instr {
			return Loc{b, i}
		}
	}
	return Loc{b, 0}
}

// After returns the location just after instr.
func After(instr ssa.Instruction) Loc {
	l := LocOf(instr)
	l.Idx++
	return l
}

// Entry returns the entry location of fn.
func Entry(fn *ssa.Function) Loc { return Loc{fn.Blocks[0], 0} }

// Walk explores all paths from start. cut(instr) == true stops a path *before*
// executing instr (instr is not visited). edgeOK, if non-nil, can forbid the
// CFG edge from block b to its succIdx-th successor. It returns the set of
// visited instructions.
func Walk(start Loc, cut func(ssa.Instruction) bool, edgeOK func(b *ssa.BasicBlock, succIdx int) bool) map[ssa.Instruction]bool {
	visited := map[ssa.Instruction]bool{}
	seenBlock := map[*ssa.BasicBlock]bool{}
	type item struct {
		b   *ssa.BasicBlock
		idx int
	}
	work := []item{{start.B, start.Idx}}
	for len(work) > 0 {
		it := work[len(work)-1]
		work = work[:len(work)-1]
		if it.idx == 0 {
			if seenBlock[it.b] {
				continue
			}
			seenBlock[it.b] = true
		}
		stopped := false
		for i := it.idx; i < len(it.b.Instrs); i++ {
			in := it.b.Instrs[i]
			if cut != nil && cut(in) {
				stopped = true
				break
			}
			visited[in] = true
		}
		if stopped {
			continue
		}
		for si, s := range it.b.Succs {
			if edgeOK != nil && !edgeOK(it.b, si) {
				continue
			}
			work = append(work, item{s, 0})
		}
	}
	return visited
}

// MustPass reports whether every path from start to target executes an
// instruction satisfying pass (target itself excluded). Vacuously true when
// target is unreachable from start.
func MustPass(start Loc, target ssa.Instruction, pass func(ssa.Instruction) bool) bool {
	v := Walk(start, func(in ssa.Instruction) bool { return in != target && pass(in) }, nil)
	return !v[target]
}

// Reachable reports whether target can be reached from start.
func Reachable(start Loc, target ssa.Instruction) bool {
	return Walk(start, nil, nil)[target]
}

// EdgeDominates reports whether every path from the function entry to target
// traverses the edge b -> b.Succs[succIdx].
func EdgeDominates(b *ssa.BasicBlock, succIdx int, target ssa.Instruction) bool {
	fn := b.Parent()
	v := Walk(Entry(fn), nil, func(bb *ssa.BasicBlock, si int) bool { return !(bb == b && si == succIdx) })
	return !v[target]
}

// Returns lists the Return instructions of fn.
func Returns(fn *ssa.Function) []*ssa.Return {
	var out []*ssa.Return
	for _, b := range fn.Blocks {
		if b == fn.Recover {
			continue // synthetic exit taken after a recovered panic
		}
		for _, in := range b.Instrs {
			if r, ok := in.(*ssa.Return); ok {
				out = append(out, r)
			}
		}
	}
	return out
}

// Instrs calls f for each instruction of fn.
func Instrs(fn *ssa.Function, f func(ssa.Instruction)) {
	for _, b := range fn.Blocks {
		for _, in := range b.Instrs {
			f(in)
		}
	}
}

// InstrsDeep calls f for each instruction of fn and of the function literals
// nested in it.
func InstrsDeep(fn *ssa.Function, f func(*ssa.Function, ssa.Instruction)) {
	instrsDeep(fn, f, 0)
}

func instrsDeep(fn *ssa.Function, f func(*ssa.Function, ssa.Instruction), depth int) {
	Instrs(fn, func(in ssa.Instruction) { f(fn, in) })
	for _, a := range fn.AnonFuncs {
		instrsDeep(a, f, depth)
	}
	if depth >= 3 {
		return
	}
	// "virtual closures": unexported functions of the module with exactly one use, a static call from here
	Instrs(fn, func(in ssa.Instruction) {
		if g := InlinedAt[in]; g != nil && g != fn {
			instrsDeep(g, f, depth+1)
		}
	})
}

// InlineSite maps an unexported named function of the module that is used
// exactly once — by a static call, go or defer — to that instruction;
// InlinedAt is the inverse. Such a function is what remains of a function
// literal after a "closure to method/function" clean-up, and the rules treat it
// like one: InstrsDeep descends into it and ResolveFree maps its parameters to
// the arguments of its only call. Filled by SetupInline after loading.
var (
	InlineSite = map[*ssa.Function]ssa.Instruction{}
	InlinedAt  = map[ssa.Instruction]*ssa.Function{}
)

// SetupInline computes InlineSite/InlinedAt for the functions of the module.
func SetupInline(p *Prog) {
	envProg = p
	soleCache = map[types.Type]*types.Named{}
	InlineSite = map[*ssa.Function]ssa.Instruction{}
	InlinedAt = map[ssa.Instruction]*ssa.Function{}
	uses := map[*ssa.Function]int{}
	var site = map[*ssa.Function]ssa.Instruction{}
	for _, fn := range p.Funcs {
		Instrs(fn, func(in ssa.Instruction) {
			var callee *ssa.Function
			if cc := CallOf(in); cc != nil {
				callee = cc.StaticCallee()
				if mc, ok := cc.Value.(*ssa.MakeClosure); ok {
					callee, _ = mc.Fn.(*ssa.Function)
				}
			}
			// a method value h.m taken of a struct built right here (what remains of a function literal
			// after a "closure to struct with a method" clean-up): the struct is the closure's environment
			if mc, ok := in.(*ssa.MakeClosure); ok {
				if m, recv := BoundMethod(p, mc); m != nil {
					if al, isAl := recv.(*ssa.Alloc); isAl && al.Parent() == fn && al.Heap {
						uses[m]++
						site[m] = in
					} else {
						uses[m] += 100
					}
				}
			}
			for _, op := range in.Operands(nil) {
				if op == nil || *op == nil {
					continue
				}
				if g, ok := (*op).(*ssa.Function); ok {
					uses[g]++
					if g == callee {
						site[g] = in
					} else {
						uses[g] += 100 // used as a value
					}
				}
			}
		})
	}
	for _, fn := range p.Funcs {
		if fn.Parent() != nil || fn.Blocks == nil || fn.Object() == nil || fn.Object().Exported() || fn.Pkg == nil || !strings.HasPrefix(fn.Pkg.Pkg.Path(), ModulePath) {
			continue
		}
		if uses[fn] != 1 || site[fn] == nil || site[fn].Parent() == fn {
			continue
		}
		// methods reachable through an interface are used dynamically too
		if fn.Signature.Recv() != nil && implementsSomeInterfaceMethod(p, fn) {
			continue
		}
		InlineSite[fn] = site[fn]
		InlinedAt[site[fn]] = fn
	}
}

// BoundMethod resolves the bound-method closure mc (a method value x.m) to the
// method and the receiver value, or nil.
func BoundMethod(p *Prog, mc *ssa.MakeClosure) (*ssa.Function, ssa.Value) {
	fn, _ := mc.Fn.(*ssa.Function)
	if fn == nil || !strings.HasSuffix(fn.Name(), "$bound") || len(mc.Bindings) != 1 {
		return nil, nil
	}
	obj, _ := fn.Object().(*types.Func)
	if obj == nil {
		return nil, nil
	}
	return p.SSA.FuncValue(obj), mc.Bindings[0]
}

// ParentOf is fn.Parent() for a function literal; for a method that stands for
// one (InlineSite is the MakeClosure of its method value) the function that
// takes the method value; nil otherwise.
func ParentOf(fn *ssa.Function) *ssa.Function {
	if fn == nil {
		return nil
	}
	if par := fn.Parent(); par != nil {
		return par
	}
	if mc, ok := InlineSite[fn].(*ssa.MakeClosure); ok {
		return mc.Parent()
	}
	return nil
}

// EnvFieldStores: for a load of field f through the receiver of a method that
// stands for a function literal (see ParentOf), the stores to that field of the
// environment struct made where it is built; ok only if nothing else in the
// module writes that field of that type (the field is then a captured variable
// that is never reassigned).
func EnvFieldStores(fa *ssa.FieldAddr) (vals []ssa.Value, ok bool) {
	if len(InlineSite) == 0 {
		return nil, false
	}
	par, isPar := fa.X.(*ssa.Parameter)
	if !isPar {
		// the receiver spilled to a cell because nested literals capture it
		if _, isLoad := fa.X.(*ssa.UnOp); !isLoad || envBusy {
			return nil, false
		}
		envBusy = true
		os := Origins(fa.X)
		envBusy = false
		if len(os) != 1 {
			return nil, false
		}
		if par, isPar = os[0].(*ssa.Parameter); !isPar {
			return nil, false
		}
	}
	mc, isMC := InlineSite[par.Parent()].(*ssa.MakeClosure)
	if !isMC || len(par.Parent().Params) == 0 || par.Parent().Params[0] != par || len(mc.Bindings) != 1 {
		return nil, false
	}
	al, isAl := mc.Bindings[0].(*ssa.Alloc)
	if !isAl {
		return nil, false
	}
	st := Deref(al.Type())
	foreign := false
	for _, fn := range envProg.Funcs {
		Instrs(fn, func(in ssa.Instruction) {
			s, isS := in.(*ssa.Store)
			if !isS {
				return
			}
			fa2, isFA := s.Addr.(*ssa.FieldAddr)
			if !isFA || fa2.Field != fa.Field || !types.Identical(Deref(fa2.X.Type()), st) {
				return
			}
			if fa2.X == ssa.Value(al) {
				vals = append(vals, s.Val)
			} else {
				foreign = true
			}
		})
	}
	if foreign || len(vals) == 0 {
		return nil, false
	}
	return vals, true
}

var envProg *Prog

var soleCache = map[types.Type]*types.Named{}

// soleConcrete: t is an unexported named interface type of the module and every
// value converted to it anywhere in the module has one and the same named
// concrete type: that type, else nil.
func soleConcrete(t types.Type) *types.Named {
	nt, ok := t.(*types.Named)
	if !ok || envProg == nil || nt.Obj().Exported() || nt.Obj().Pkg() == nil || !strings.HasPrefix(nt.Obj().Pkg().Path(), ModulePath) {
		return nil
	}
	if _, isI := nt.Underlying().(*types.Interface); !isI {
		return nil
	}
	if r, ok := soleCache[t]; ok {
		return r
	}
	var found *types.Named
	many := false
	for _, fn := range envProg.Funcs {
		Instrs(fn, func(in ssa.Instruction) {
			var from types.Type
			switch x := in.(type) {
			case *ssa.MakeInterface:
				if types.Identical(x.Type(), t) {
					from = x.X.Type()
				}
			case *ssa.ChangeInterface:
				if types.Identical(x.Type(), t) {
					many = true
				}
			case *ssa.TypeAssert:
				if types.Identical(x.AssertedType, t) {
					many = true
				}
			}
			if from == nil {
				return
			}
			c, _ := Deref(from).(*types.Named)
			if c == nil || (found != nil && found != c) {
				many = true
				return
			}
			found = c
		})
	}
	if many {
		found = nil
	}
	soleCache[t] = found
	return found
}

var envBusy bool

// Deref strips one pointer level.
func Deref(t types.Type) types.Type {
	if pt, ok := t.Underlying().(*types.Pointer); ok {
		return pt.Elem()
	}
	return t
}

// implementsSomeInterfaceMethod: the method's name is a method of some
// interface type of the loaded program that its receiver implements (a
// conservative "may be called dynamically").
func implementsSomeInterfaceMethod(p *Prog, fn *ssa.Function) bool {
	recv := fn.Signature.Recv().Type()
	name := fn.Name()
	for _, pk := range p.All {
		if pk.Types == nil {
			continue
		}
		sc := pk.Types.Scope()
		for _, n := range sc.Names() {
			tn, ok := sc.Lookup(n).(*types.TypeName)
			if !ok {
				continue
			}
			it, ok := tn.Type().Underlying().(*types.Interface)
			if !ok || it.NumMethods() == 0 {
				continue
			}
			has := false
			for i := 0; i < it.NumMethods(); i++ {
				if it.Method(i).Name() == name {
					has = true
				}
			}
			if has && types.Implements(recv, it) {
				return true
			}
		}
	}
	return false
}

// ---------------------------------------------------------------------------
// Branch facts.

// Fact is a normalised comparison "X Op Y" known to hold on a CFG edge.
type Fact struct {
	Op   token.Token // EQL NEQ LSS LEQ GTR GEQ, or ILLEGAL for a plain bool value (X true)
	X, Y ssa.Value
	Neg  bool // for plain bool: X is false
}

func negOp(op token.Token) token.Token {
	switch op {
	case token.EQL:
		return token.NEQ
	case token.NEQ:
		return token.EQL
	case token.LSS:
		return token.GEQ
	case token.GEQ:
		return token.LSS
	case token.GTR:
		return token.LEQ
	case token.LEQ:
		return token.GTR
	}
	return token.ILLEGAL
}

// CondFact decodes a boolean SSA value into a Fact, assuming it evaluates to
// truth (truth=false: assuming it is false).
func CondFact(v ssa.Value, truth bool) Fact {
	for {
		if u, ok := v.(*ssa.UnOp); ok && u.Op == token.NOT {
			v = u.X
			truth = !truth
			continue
		}
		break
	}
	if b, ok := v.(*ssa.BinOp); ok {
		switch b.Op {
		case token.EQL, token.NEQ, token.LSS, token.LEQ, token.GTR, token.GEQ:
			op := b.Op
			if !truth {
				op = negOp(op)
			}
			return Fact{Op: op, X: b.X, Y: b.Y}
		}
	}
	// a call of a pure, straight-line predicate helper of the repository ("func isBinaryKey(k string) bool {
	// return strings.HasSuffix(k, "-bin") }") stands for the expression it returns; the fact's operands are
	// then values of the helper (its parameters stand for the call's arguments)
	if call, ok := v.(*ssa.Call); ok {
		if rv := PurePredicateResult(call); rv != nil {
			return CondFact(rv, truth)
		}
	}
	return Fact{Op: token.ILLEGAL, X: v, Neg: !truth}
}

// PurePredicateResult returns the value a call of a pure single-block bool
// function of the module returns, or nil.
func PurePredicateResult(call *ssa.Call) ssa.Value {
	fn := call.Call.StaticCallee()
	if fn == nil || fn.Blocks == nil || len(fn.Blocks) != 1 || fn.Pkg == nil || !strings.HasPrefix(fn.Pkg.Pkg.Path(), ModulePath) {
		return nil
	}
	if fn.Signature.Results().Len() != 1 {
		return nil
	}
	if b, ok := fn.Signature.Results().At(0).Type().Underlying().(*types.Basic); !ok || b.Kind() != types.Bool {
		return nil
	}
	var ret *ssa.Return
	for _, in := range fn.Blocks[0].Instrs {
		switch x := in.(type) {
		case *ssa.Return:
			ret = x
		case *ssa.DebugRef, *ssa.BinOp, *ssa.Convert, *ssa.ChangeType, *ssa.Extract, *ssa.Lookup, *ssa.Field, *ssa.FieldAddr, *ssa.Index, *ssa.IndexAddr, *ssa.Slice, *ssa.TypeAssert, *ssa.MakeInterface:
		case *ssa.UnOp:
			if x.Op == token.ARROW {
				return nil
			}
		case *ssa.Call:
			if _, isB := x.Call.Value.(*ssa.Builtin); isB {
				continue
			}
			callee := x.Call.StaticCallee()
			if callee == nil || callee.Pkg == nil {
				return nil
			}
			switch callee.Pkg.Pkg.Path() {
			case "strings", "bytes", "unicode", "unicode/utf8", "path":
			default:
				return nil
			}
		default:
			return nil
		}
	}
	if ret == nil || len(ret.Results) != 1 {
		return nil
	}
	return ret.Results[0]
}

// EdgeFacts lists, for every If in fn, the facts on both outgoing edges.
type EdgeFact struct {
	B    *ssa.BasicBlock
	Succ int
	Fact Fact
	If   *ssa.If
}

func EdgeFactsOf(fn *ssa.Function) []EdgeFact {
	var out []EdgeFact
	for _, b := range fn.Blocks {
		if len(b.Instrs) == 0 {
			continue
		}
		if iff, ok := b.Instrs[len(b.Instrs)-1].(*ssa.If); ok {
			out = append(out, EdgeFact{b, 0, CondFact(iff.Cond, true), iff})
			out = append(out, EdgeFact{b, 1, CondFact(iff.Cond, false), iff})
		}
	}
	return out
}

// DominatingFacts returns the facts of all edges that dominate target.
func DominatingFacts(target ssa.Instruction) []EdgeFact {
	fn := target.Parent()
	var out []EdgeFact
	for _, ef := range EdgeFactsOf(fn) {
		if ef.B.Succs[0] == ef.B.Succs[1] {
			continue
		}
		if EdgeDominates(ef.B, ef.Succ, target) {
			out = append(out, ef)
		}
	}
	return out
}

// ---------------------------------------------------------------------------
// Value predicates.

func IsNilConst(v ssa.Value) bool {
	c, ok := v.(*ssa.Const)
	return ok && c.Value == nil && !isBasicNonNil(c.Type())
}

func isBasicNonNil(t types.Type) bool {
	_, ok := t.Underlying().(*types.Basic)
	return ok
}

// ConstInt returns the integer value of a constant.
func ConstInt(v ssa.Value) (int64, bool) {
	c, ok := v.(*ssa.Const)
	if !ok || c.Value == nil {
		return 0, false
	}
	if c.Value.Kind() != constant.Int {
		return 0, false
	}
	i, ok := constant.Int64Val(c.Value)
	return i, ok
}

// ConstString returns the string value of a constant.
func ConstString(v ssa.Value) (string, bool) {
	c, ok := v.(*ssa.Const)
	if !ok || c.Value == nil || c.Value.Kind() != constant.String {
		return "", false
	}
	return constant.StringVal(c.Value), true
}

// ConstBool returns the value of a boolean constant.
func ConstBool(v ssa.Value) (bool, bool) {
	c, ok := v.(*ssa.Const)
	if !ok || c.Value == nil || c.Value.Kind() != constant.Bool {
		return false, false
	}
	return constant.BoolVal(c.Value), true
}

// Strip removes value-preserving wrappers (ChangeType, ChangeInterface,
// MakeInterface, Convert between same-size..., TypeAssert without comma-ok is
// NOT stripped).
func Strip(v ssa.Value) ssa.Value {
	for {
		switch x := v.(type) {
		case *ssa.ChangeType:
			v = x.X
		case *ssa.ChangeInterface:
			v = x.X
		case *ssa.MakeInterface:
			v = x.X
		default:
			return v
		}
	}
}

// FieldOf: if v is a load of (or the address of) field f of some struct
// pointer base, returns base and field name.
func FieldOf(v ssa.Value) (base ssa.Value, field string, ok bool) {
	if u, isU := v.(*ssa.UnOp); isU && u.Op == token.MUL {
		v = u.X
	}
	switch x := v.(type) {
	case *ssa.FieldAddr:
		st := derefStruct(x.X.Type())
		if st == nil {
			return nil, "", false
		}
		b, prefix := promotedBaseName(x.X)
		return b, prefix + FieldName(st, x.Field), true
	case *ssa.Field:
		st, _ := x.X.Type().Underlying().(*types.Struct)
		if st == nil {
			return nil, "", false
		}
		b, prefix := promotedBaseName(x.X)
		return b, prefix + FieldName(st, x.Field), true
	}
	return nil, "", false
}

// promotedBaseName: like promotedBase, and additionally looks through NAMED
// (not embedded) value fields of module struct types that merely group fields
// of their owner (x.hdrs.sent): the field is reported as "hdrs.sent" of x.
func promotedBaseName(b ssa.Value) (ssa.Value, string) {
	prefix := ""
	for i := 0; i < 4; i++ {
		var inner ssa.Value
		var st *types.Struct
		var idx int
		switch y := b.(type) {
		case *ssa.FieldAddr:
			st, inner, idx = derefStruct(y.X.Type()), y.X, y.Field
		case *ssa.Field:
			st, _ = y.X.Type().Underlying().(*types.Struct)
			inner, idx = y.X, y.Field
		default:
			return b, prefix
		}
		if st == nil {
			return b, prefix
		}
		f := st.Field(idx)
		if _, isStruct := f.Type().Underlying().(*types.Struct); !isStruct || !moduleType(f.Type()) {
			return b, prefix
		}
		if !f.Embedded() {
			// only private grouping structs (unexported type, no methods)
			n, _ := f.Type().(*types.Named)
			if n == nil || n.Obj().Exported() || n.NumMethods() > 0 {
				return b, prefix
			}
			prefix = FieldName(st, idx) + "." + prefix
		}
		b = inner
	}
	return b, prefix
}

// promotedBase: a field reached through EMBEDDED struct fields of the module
// (x.inner.f written x.f) belongs, for the rules, to the outermost struct: the
// base is the value the embedding chain starts from.
func promotedBase(b ssa.Value) ssa.Value {
	for i := 0; i < 4; i++ {
		switch y := b.(type) {
		case *ssa.FieldAddr:
			st := derefStruct(y.X.Type())
			if st == nil || !st.Field(y.Field).Embedded() || !moduleType(st.Field(y.Field).Type()) {
				return b
			}
			b = y.X
		case *ssa.Field:
			st, _ := y.X.Type().Underlying().(*types.Struct)
			if st == nil || !st.Field(y.Field).Embedded() || !moduleType(st.Field(y.Field).Type()) {
				return b
			}
			b = y.X
		default:
			return b
		}
	}
	return b
}

func moduleType(t types.Type) bool {
	if p, ok := t.(*types.Pointer); ok {
		t = p.Elem()
	}
	n, ok := t.(*types.Named)
	return ok && n.Obj().Pkg() != nil && strings.HasPrefix(n.Obj().Pkg().Path(), ModulePath)
}

// Role aliases. The rules name a few PRIVATE identifiers of the repository
// (the frame type and its fields, the peek slot, …). So that renaming one of
// them does not turn into an alarm, the rules package finds these identifiers
// by role once per load (rules.SetupRoles) and registers the canonical name
// the rules use; FieldOf / FieldName / NamedOf / CallInfo.Name report the
// canonical name for them. Exported API names are never aliased.
var (
	FieldAlias = map[*types.Var]string{}
	TypeAlias  = map[*types.TypeName]string{}
	FuncAlias  = map[*types.Func]string{}
)

// FieldName is the (canonical) name of field i of st.
func FieldName(st *types.Struct, i int) string {
	f := st.Field(i)
	if a, ok := FieldAlias[f]; ok {
		return a
	}
	return f.Name()
}

func derefStruct(t types.Type) *types.Struct {
	if p, ok := t.Underlying().(*types.Pointer); ok {
		t = p.Elem()
	}
	st, _ := t.Underlying().(*types.Struct)
	return st
}

// NamedOf returns the name of the (pointer-to) named type of t, e.g.
// "inProcessServerStream".
func NamedOf(t types.Type) string {
	if p, ok := t.(*types.Pointer); ok {
		t = p.Elem()
	}
	if n, ok := t.(*types.Named); ok {
		obj := n.Obj()
		for i := 0; i < 4; i++ {
			o, isPart := PartOf[obj]
			if !isPart {
				break
			}
			obj = o
		}
		if a, ok := TypeAlias[obj]; ok {
			return a
		}
		return obj.Name()
	}
	return ""
}

// PartOf maps a private struct type of the module that is embedded in exactly
// one other struct type of its package (and in nothing else) to that owner: the
// owner's fields and methods merely grouped under a type of their own. NamedOf
// reports the owner for such a part, so that a method declared on the part is,
// for the rules, a method of the owner. Filled by SetupParts.
var PartOf = map[*types.TypeName]*types.TypeName{}

// SetupParts fills PartOf for the loaded program.
func SetupParts(p *Prog) {
	for k := range PartOf {
		delete(PartOf, k)
	}
	for _, pk := range p.Pkgs {
		sc := pk.Types.Scope()
		owners := map[*types.TypeName][]*types.TypeName{}
		for _, name := range sc.Names() {
			tn, ok := sc.Lookup(name).(*types.TypeName)
			if !ok || tn.IsAlias() || !p.IsLibFile(tn.Pos()) {
				continue
			}
			st, ok := tn.Type().Underlying().(*types.Struct)
			if !ok {
				continue
			}
			for i := 0; i < st.NumFields(); i++ {
				f := st.Field(i)
				if !f.Embedded() {
					continue
				}
				// by value only: an embedded POINTER refers to an object of its own (it can be reached, kept
				// alive and shared independently of the embedding struct)
				ft := f.Type()
				fn, isN := ft.(*types.Named)
				if !isN || fn.Obj().Pkg() != pk.Types || fn.Obj().Exported() {
					continue
				}
				if _, isSt := fn.Underlying().(*types.Struct); !isSt {
					continue
				}
				owners[fn.Obj()] = append(owners[fn.Obj()], tn)
			}
		}
		for part, os := range owners {
			if len(os) == 1 && os[0] != part {
				PartOf[part] = os[0]
			}
		}
	}
}

// QualNamedOf returns "pkgpath.Name" of the (pointer-to) named type.
func QualNamedOf(t types.Type) string {
	if p, ok := t.(*types.Pointer); ok {
		t = p.Elem()
	}
	if n, ok := t.(*types.Named); ok {
		if n.Obj().Pkg() == nil {
			return n.Obj().Name()
		}
		return n.Obj().Pkg().Path() + "." + n.Obj().Name()
	}
	return ""
}

// FieldAccess describes v if it is the address of (or load of) a field of a
// named struct: type name and field name.
func FieldAccess(v ssa.Value) (typ, field string, ok bool) {
	base, f, ok := FieldOf(v)
	if !ok {
		return "", "", false
	}
	return NamedOf(base.Type()), f, true
}

// ---------------------------------------------------------------------------
// Calls.

// CallInfo describes the callee of a call instruction.
type CallInfo struct {
	Pkg     string // package path of the callee ("" for builtins / dynamic)
	Recv    string // receiver named type (no pointer star), "" for functions
	Name    string
	Static  *ssa.Function // non-nil for static calls with known function
	Iface   bool          // interface method invocation
	Dyn     bool          // call of a func value
	Builtin bool
}

// Full returns "pkg.Recv.Name" / "pkg.Name".
func (ci CallInfo) Full() string {
	s := ci.Pkg
	if s != "" {
		s += "."
	}
	if ci.Recv != "" {
		s += ci.Recv + "."
	}
	return s + ci.Name
}

// Is matches "pkg.Name" or "pkg.Recv.Name" against full.
func (ci CallInfo) Is(full string) bool { return ci.Full() == full }

// InfoOf describes a call.
func InfoOf(c *ssa.CallCommon) CallInfo {
	if c.IsInvoke() {
		m := c.Method
		ci := CallInfo{Name: m.Name(), Iface: true}
		if m.Pkg() != nil {
			ci.Pkg = m.Pkg().Path()
		}
		if sig, ok := m.Type().(*types.Signature); ok && sig.Recv() != nil {
			ci.Recv = NamedOf(sig.Recv().Type())
		}
		if ci.Recv == "" {
			ci.Recv = NamedOf(c.Value.Type())
		}
		if ci.Pkg == "" { // e.g. error.Error
			if n, ok := c.Value.Type().(*types.Named); ok && n.Obj().Pkg() != nil {
				ci.Pkg = n.Obj().Pkg().Path()
			}
		}
		// a private interface of the module that only ever holds one concrete type (a seam introduced by a
		// clean-up): the call is that type's method in all but name
		if nt := soleConcrete(c.Value.Type()); nt != nil {
			ci.Recv = NamedOf(nt)
			if nt.Obj().Pkg() != nil {
				ci.Pkg = nt.Obj().Pkg().Path()
			}
		}
		return ci
	}
	switch v := c.Value.(type) {
	case *ssa.Builtin:
		return CallInfo{Name: v.Name(), Builtin: true}
	case *ssa.Function:
		v = Generic(v)
		ci := CallInfo{Name: v.Name(), Static: v}
		if fo, ok := v.Object().(*types.Func); ok {
			if a, ok := FuncAlias[fo]; ok {
				ci.Name = a
			}
		}
		if v.Pkg != nil {
			ci.Pkg = v.Pkg.Pkg.Path()
		} else if v.Object() != nil && v.Object().Pkg() != nil {
			ci.Pkg = v.Object().Pkg().Path()
		}
		ci.Recv = RecvName(v)
		if v.Parent() != nil { // function literal called directly
			ci.Name = v.Name()
		}
		return ci
	case *ssa.MakeClosure:
		f := v.Fn.(*ssa.Function)
		return CallInfo{Name: f.Name(), Static: f}
	}
	return CallInfo{Dyn: true}
}

// RecvName returns the name of the named type fn is a method of. A
// package-level, unexported function of the module whose first parameter is a
// pointer to a struct type declared in its own package counts as a method of
// that type: a method written as a function ("recvLocked(s, m)" instead of
// "s.recvLocked(m)") is the same code. "" if neither.
func RecvName(fn *ssa.Function) string {
	if fn == nil {
		return ""
	}
	if r := fn.Signature.Recv(); r != nil {
		return NamedOf(r.Type())
	}
	if fn.Parent() != nil || fn.Object() == nil || fn.Object().Exported() || len(fn.Params) == 0 || fn.Pkg == nil || !strings.HasPrefix(fn.Pkg.Pkg.Path(), ModulePath) {
		return ""
	}
	pt, ok := fn.Params[0].Type().(*types.Pointer)
	if !ok {
		return ""
	}
	nt, ok := pt.Elem().(*types.Named)
	if !ok || nt.Obj().Pkg() != fn.Pkg.Pkg {
		return ""
	}
	if _, isSt := nt.Underlying().(*types.Struct); !isSt {
		return ""
	}
	return nt.Obj().Name()
}

// Generic sees through the synthetic instantiation wrapper go/ssa puts in front
// of a generic function (f[T] called with a concrete T): the wrapper only
// re-types its arguments and calls the generic body, parameter for parameter.
func Generic(fn *ssa.Function) *ssa.Function {
	if fn != nil && strings.HasPrefix(fn.Synthetic, "instantiation wrapper") {
		if o := fn.Origin(); o != nil {
			return o
		}
	}
	return fn
}

// CallOf returns the CallCommon of instr if it is a call, go or defer.
func CallOf(in ssa.Instruction) *ssa.CallCommon {
	switch x := in.(type) {
	case *ssa.Call:
		return &x.Call
	case *ssa.Go:
		return &x.Call
	case *ssa.Defer:
		return &x.Call
	}
	return nil
}

// IsCallTo reports whether in is a (plain) call whose callee is full
// ("pkg.Name" or "pkg.Recv.Name").
func IsCallTo(in ssa.Instruction, full ...string) bool {
	c, ok := in.(*ssa.Call)
	if !ok {
		return false
	}
	f := InfoOf(&c.Call).Full()
	for _, s := range full {
		if f == s {
			return true
		}
	}
	return false
}

// CallsIn returns the call instructions in fn matching pred.
func CallsIn(fn *ssa.Function, pred func(*ssa.Call, CallInfo) bool) []*ssa.Call {
	var out []*ssa.Call
	Instrs(fn, func(in ssa.Instruction) {
		if c, ok := in.(*ssa.Call); ok {
			if pred(c, InfoOf(&c.Call)) {
				out = append(out, c)
			}
		}
	})
	return out
}

// Args returns the actual arguments, including the receiver for method calls
// (receiver first), for both static and invoke mode.
func Args(c *ssa.CallCommon) []ssa.Value {
	if c.IsInvoke() {
		return append([]ssa.Value{c.Value}, c.Args...)
	}
	return c.Args
}

// ---------------------------------------------------------------------------
// Closures and captured cells.

// Binding returns, for free variable index i of closure function fn, the
// values bound at its MakeClosure sites in the parent.
func ClosureSites(fn *ssa.Function) []*ssa.MakeClosure {
	var out []*ssa.MakeClosure
	if fn.Parent() == nil {
		return nil
	}
	Instrs(fn.Parent(), func(in ssa.Instruction) {
		if mc, ok := in.(*ssa.MakeClosure); ok && mc.Fn == fn {
			out = append(out, mc)
		}
	})
	return out
}

// ResolveFree maps a FreeVar of a closure to the value bound in the parent
// (first MakeClosure site); other values are returned unchanged.
func ResolveFree(v ssa.Value) ssa.Value {
	for {
		if par, isPar := v.(*ssa.Parameter); isPar {
			// a parameter of a "virtual closure" stands for the argument of its only call
			site := InlineSite[par.Parent()]
			if site == nil {
				return v
			}
			if mc, isMC := site.(*ssa.MakeClosure); isMC {
				// a method used only as the method value of a struct built at the site: the receiver is that struct
				if len(par.Parent().Params) > 0 && par.Parent().Params[0] == par && len(mc.Bindings) == 1 {
					v = mc.Bindings[0]
					continue
				}
				return v
			}
			cc := CallOf(site)
			idx := -1
			for i, pp := range par.Parent().Params {
				if pp == par {
					idx = i
				}
			}
			if cc == nil || idx < 0 || idx >= len(cc.Args) {
				return v
			}
			v = cc.Args[idx]
			continue
		}
		fv, ok := v.(*ssa.FreeVar)
		if !ok {
			return v
		}
		fn := fv.Parent()
		idx := -1
		for i, f := range fn.FreeVars {
			if f == fv {
				idx = i
			}
		}
		sites := ClosureSites(fn)
		if idx < 0 || len(sites) == 0 {
			return v
		}
		v = sites[0].Bindings[idx]
	}
}

// CellName returns the source name of a captured/heap variable cell
// (Alloc or FreeVar), or "".
func CellName(v ssa.Value) string {
	v = ResolveFree(v)
	if a, ok := v.(*ssa.Alloc); ok {
		return a.Comment
	}
	return ""
}

// SameCell reports whether two addresses denote the same variable cell
// (through closure capture).
func SameCell(a, b ssa.Value) bool {
	return ResolveFree(a) == ResolveFree(b)
}

// ---------------------------------------------------------------------------
// Misc.

// TypeString without package paths of the analysed module.
func TypeStr(t types.Type) string {
	return strings.ReplaceAll(types.TypeString(t, nil), ModulePath+"/", "")
}

// IsErrorType reports whether t is the predeclared error interface.
func IsErrorType(t types.Type) bool {
	return types.Identical(t, types.Universe.Lookup("error").Type())
}

// Referrers of v, never nil-panicking.
func Refs(v ssa.Value) []ssa.Instruction {
	r := v.Referrers()
	if r == nil {
		return nil
	}
	return *r
}

// ErrReturns are the normal returns of fn whose last result is an error
// (functions without results, or whose last result is not an error, have
// none).
func ErrReturns(fn *ssa.Function) []*ssa.Return {
	var out []*ssa.Return
	for _, r := range Returns(fn) {
		if n := len(r.Results); n > 0 && IsErrorType(r.Results[n-1].Type()) {
			out = append(out, r)
		}
	}
	return out
}

// FlatField is one field of a struct as the rules see it: embedded module
// structs are flattened (their fields count as fields of the owner), private
// grouping structs contribute dotted names ("hdrs.sent"), as FieldOf reports.
type FlatField struct {
	Name string
	Var  *types.Var
}

// FlatFields lists the fields of st in declaration order, flattened.
func FlatFields(st *types.Struct) []FlatField {
	var out []FlatField
	var rec func(st *types.Struct, prefix string, depth int)
	rec = func(st *types.Struct, prefix string, depth int) {
		for i := 0; i < st.NumFields(); i++ {
			f := st.Field(i)
			if in, isS := f.Type().Underlying().(*types.Struct); isS && moduleType(f.Type()) && depth < 3 {
				if f.Embedded() {
					rec(in, prefix, depth+1)
					continue
				}
				if n, _ := f.Type().(*types.Named); n != nil && !n.Obj().Exported() && n.NumMethods() == 0 {
					rec(in, prefix+FieldName(st, i)+".", depth+1)
					continue
				}
			}
			out = append(out, FlatField{prefix + FieldName(st, i), f})
		}
	}
	rec(st, "", 0)
	return out
}
