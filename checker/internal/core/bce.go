package core

import (
	"bufio"
	"bytes"
	"fmt"
	"os"
	"os/exec"
	"path/filepath"
	"regexp"
	"strconv"
	"strings"
)

// BCESite is an index/slice expression the Go compiler's prove pass could NOT
// show to be in range (E-bce, thorough tier).
type BCESite struct {
	File string // relative to the repo
	Line int
	Col  int
	Kind string // IsInBounds | IsSliceInBounds
}

// CompilerBCE runs the compiler with -d=ssa/check_bce on the repository and
// returns the residual bounds checks in hand-written library code.
func CompilerBCE(repoDir string, extraEnv ...string) ([]BCESite, error) {
	cmd := exec.Command("go", "build", "-gcflags="+ModulePath+"/...=-d=ssa/check_bce/debug=1", "./...")
	cmd.Dir = repoDir
	cmd.Env = append(os.Environ(), "GOFLAGS=-mod=mod", "GOPROXY=off", "GOSUMDB=off", "GOTOOLCHAIN=local", "GOWORK=off")
	cmd.Env = append(cmd.Env, extraEnv...)
	var out bytes.Buffer
	cmd.Stdout = &out
	cmd.Stderr = &out
	if err := cmd.Run(); err != nil {
		return nil, fmt.Errorf("go build -d=ssa/check_bce: %v\n%s", err, tail(out.String(), 800))
	}
	re := regexp.MustCompile(`^(\S+\.go):(\d+):(\d+): Found (IsInBounds|IsSliceInBounds)`)
	var sites []BCESite
	sc := bufio.NewScanner(&out)
	for sc.Scan() {
		m := re.FindStringSubmatch(strings.TrimSpace(sc.Text()))
		if m == nil {
			continue
		}
		f := filepath.Clean(m[1])
		if filepath.IsAbs(f) {
			if rel, err := filepath.Rel(repoDir, f); err == nil {
				f = rel
			}
		}
		if strings.HasSuffix(f, "_test.go") || strings.HasSuffix(f, ".pb.go") || strings.HasSuffix(f, ".pb.grpchan.go") || strings.HasPrefix(f, "grpchantesting/") {
			continue
		}
		l, _ := strconv.Atoi(m[2])
		c, _ := strconv.Atoi(m[3])
		sites = append(sites, BCESite{f, l, c, m[4]})
	}
	return sites, nil
}

func tail(s string, n int) string {
	if len(s) > n {
		return s[len(s)-n:]
	}
	return s
}

// BoundsIndex maps "file:line" to the SSA-enumerated bounds obligations there.
func (p *Prog) BoundsIndex(pkgSuffixes ...string) map[string][]BoundOb {
	idx := map[string][]BoundOb{}
	for _, s := range pkgSuffixes {
		fns := p.LibFuncs(s)
		ComputeParamLenHints(fns)
		for _, fn := range fns {
			for _, ob := range BoundsOf(fn) {
				pos := p.Fset.Position(ob.Instr.Pos())
				rel, _ := filepath.Rel(p.RepoDir, pos.Filename)
				k := fmt.Sprintf("%s:%d", rel, pos.Line)
				idx[k] = append(idx[k], ob)
			}
		}
	}
	return idx
}
