// Package core holds the loader, the obligation/report machinery and the
// shared analysis helpers used by the per-property rule files.
package core

import (
	"fmt"
	"go/ast"
	"go/token"
	"go/types"
	"os"
	"path/filepath"
	"sort"
	"strings"

	"golang.org/x/tools/go/packages"
	"golang.org/x/tools/go/ssa"
	"golang.org/x/tools/go/ssa/ssautil"
)

// ModulePath is the import path prefix of the analysed repository.
const ModulePath = "github.com/fullstorydev/grpchan"

// ExpectedPkgs are the import paths that must be present (others are analysed
// too and reported in evidence).
var ExpectedPkgs = []string{
	ModulePath,
	ModulePath + "/cmd/protoc-gen-grpchan",
	ModulePath + "/grpchantesting",
	ModulePath + "/httpgrpc",
	ModulePath + "/inprocgrpc",
	ModulePath + "/internal",
}

// Prog is the loaded, type-checked repository in SSA form.
type Prog struct {
	RepoDir      string
	Whole        bool // whole-program SSA (thorough) or repo packages only (quick)
	SplitReturns int  // returns split off single-exit tails by UndoSingleExit
	Fset         *token.FileSet
	Pkgs         map[string]*packages.Package // repo packages by import path
	All          []*packages.Package          // every package loaded (deps too)
	SSA          *ssa.Program
	SSAPkgs      map[string]*ssa.Package
	// Funcs are all source-level functions (incl. methods and function
	// literals) of the repo packages.
	Funcs []*ssa.Function
	// parent maps a function literal to the list of (MakeClosure) creating it.
	GoVersion string // language version from go.mod ("1.18")
	GrpcVer   string
}

// CheckError is a failure of the machinery itself (exit 2).
type CheckError struct{ Msg string }

func (e *CheckError) Error() string { return "CHECK-ERROR: " + e.Msg }

func cerr(f string, a ...interface{}) error { return &CheckError{fmt.Sprintf(f, a...)} }

// Load loads repoDir/... . whole selects LoadAllSyntax + whole-program SSA.
func Load(repoDir string, whole bool, extraEnv ...string) (*Prog, error) {
	mode := packages.NeedName | packages.NeedFiles | packages.NeedCompiledGoFiles |
		packages.NeedImports | packages.NeedDeps | packages.NeedTypes | packages.NeedSyntax |
		packages.NeedTypesInfo | packages.NeedTypesSizes | packages.NeedModule
	if !whole {
		// types of dependencies come from export data; syntax for roots only
		mode = packages.NeedName | packages.NeedFiles | packages.NeedCompiledGoFiles |
			packages.NeedImports | packages.NeedDeps | packages.NeedTypes | packages.NeedSyntax |
			packages.NeedTypesInfo | packages.NeedTypesSizes | packages.NeedModule | packages.NeedExportFile
	}
	env := append(os.Environ(),
		"GOFLAGS=-mod=mod", "GOPROXY=off", "GOSUMDB=off", "GOTOOLCHAIN=local", "GOWORK=off")
	env = append(env, extraEnv...)
	cfg := &packages.Config{Mode: mode, Dir: repoDir, Env: env, Tests: false}
	if !whole {
		// LoadSyntax semantics: only roots get syntax
		cfg.Mode = packages.LoadSyntax | packages.NeedModule
	} else {
		cfg.Mode = packages.LoadAllSyntax | packages.NeedModule
	}
	initial, err := packages.Load(cfg, "./...")
	if err != nil {
		return nil, cerr("packages.Load: %v", err)
	}
	if len(initial) == 0 {
		return nil, cerr("no packages loaded from %s", repoDir)
	}
	p := &Prog{RepoDir: repoDir, Whole: whole, Pkgs: map[string]*packages.Package{}, SSAPkgs: map[string]*ssa.Package{}}
	var errs []string
	packages.Visit(initial, nil, func(pk *packages.Package) {
		p.All = append(p.All, pk)
		for _, e := range pk.Errors {
			errs = append(errs, pk.PkgPath+": "+e.Error())
		}
	})
	if len(errs) > 0 {
		sort.Strings(errs)
		if len(errs) > 10 {
			errs = errs[:10]
		}
		return nil, cerr("type/load errors:\n  %s", strings.Join(errs, "\n  "))
	}
	for _, pk := range initial {
		if !strings.HasPrefix(pk.PkgPath, ModulePath) {
			return nil, cerr("unexpected root package %s", pk.PkgPath)
		}
		p.Pkgs[pk.PkgPath] = pk
		if p.Fset == nil {
			p.Fset = pk.Fset
		}
		if pk.Module != nil && p.GoVersion == "" {
			p.GoVersion = pk.Module.GoVersion
		}
	}
	for _, want := range ExpectedPkgs {
		if p.Pkgs[want] == nil {
			return nil, cerr("expected package %s not found in %s", want, repoDir)
		}
	}
	for _, pk := range p.All {
		if pk.PkgPath == "google.golang.org/grpc" && pk.Module != nil {
			p.GrpcVer = pk.Module.Version
		}
	}
	bmode := ssa.BuilderMode(0)
	var prog *ssa.Program
	var spkgs []*ssa.Package
	if whole {
		prog, _ = ssautil.AllPackages(initial, bmode)
	} else {
		prog, spkgs = ssautil.Packages(initial, bmode)
		_ = spkgs
	}
	prog.Build()
	p.SSA = prog
	for path, pk := range p.Pkgs {
		sp := prog.Package(pk.Types)
		if sp == nil {
			return nil, cerr("no SSA package for %s", path)
		}
		p.SSAPkgs[path] = sp
	}
	// Enumerate source functions of repo packages.
	seen := map[*ssa.Function]bool{}
	var add func(fn *ssa.Function)
	add = func(fn *ssa.Function) {
		if fn == nil || seen[fn] || fn.Blocks == nil {
			return
		}
		seen[fn] = true
		p.Funcs = append(p.Funcs, fn)
		for _, a := range fn.AnonFuncs {
			add(a)
		}
	}
	for _, sp := range p.SSAPkgs {
		for _, m := range sp.Members {
			switch m := m.(type) {
			case *ssa.Function:
				add(m)
			case *ssa.Type:
				nt, ok := m.Type().(*types.Named)
				if !ok {
					continue
				}
				for _, t := range []types.Type{nt, types.NewPointer(nt)} {
					ms := prog.MethodSets.MethodSet(t)
					for i := 0; i < ms.Len(); i++ {
						f := prog.MethodValue(ms.At(i))
						if f != nil && f.Synthetic == "" {
							add(f)
						}
					}
				}
			}
		}
	}
	sort.Slice(p.Funcs, func(i, j int) bool { return FuncName(p.Funcs[i]) < FuncName(p.Funcs[j]) })
	// undo "one result variable, one return statement": see normalize.go
	if os.Getenv("GRPCHANLINT_NO_NORMALIZE") == "" {
		for _, fn := range p.Funcs {
			if p.IsLibFile(fn.Pos()) || fn.Parent() != nil {
				p.SplitReturns += UndoSingleExit(fn)
			}
		}
	}
	if want := os.Getenv("GRPCHANLINT_DUMPFN"); want != "" {
		for _, fn := range p.Funcs {
			if FuncName(fn) == want {
				fn.WriteTo(os.Stderr)
			}
		}
	}
	if err := p.checkBuildTags(); err != nil {
		return nil, err
	}
	return p, nil
}

// checkBuildTags fails when a non-test source file of the repository carries a
// build constraint: such a file could hide from the analysis.
func (p *Prog) checkBuildTags() error {
	var bad []string
	filepath.Walk(p.RepoDir, func(path string, info os.FileInfo, err error) error {
		if err != nil {
			return nil
		}
		if info.IsDir() {
			if n := info.Name(); n == ".git" || n == "vendor" || n == "testdata" {
				return filepath.SkipDir
			}
			return nil
		}
		if !strings.HasSuffix(path, ".go") || strings.HasSuffix(path, "_test.go") {
			return nil
		}
		b, err := os.ReadFile(path)
		if err != nil {
			return nil
		}
		for _, line := range strings.Split(string(b), "\n") {
			t := strings.TrimSpace(line)
			if strings.HasPrefix(t, "package ") {
				break
			}
			if strings.HasPrefix(t, "//go:build") || strings.HasPrefix(t, "// +build") {
				bad = append(bad, path)
			}
		}
		return nil
	})
	if len(bad) > 0 {
		return cerr("build-constrained source files would hide from the analysis: %v", bad)
	}
	return nil
}

// IsLibFile reports whether pos lies in hand-written library code (not a
// test, not generated *.pb.go, not the grpchantesting package).
func (p *Prog) IsLibFile(pos token.Pos) bool {
	if !pos.IsValid() {
		return false
	}
	f := p.Fset.Position(pos).Filename
	if strings.HasSuffix(f, "_test.go") || strings.HasSuffix(f, ".pb.go") || strings.HasSuffix(f, ".pb.grpchan.go") {
		return false
	}
	if strings.Contains(f, "/grpchantesting/") {
		return false
	}
	return true
}

// LibFuncs returns the source functions in hand-written library code of the
// package with the given path suffix ("" = all library packages).
func (p *Prog) LibFuncs(pkgSuffix string) []*ssa.Function {
	var out []*ssa.Function
	for _, fn := range p.Funcs {
		if !p.IsLibFile(fn.Pos()) {
			continue
		}
		if pkgSuffix != "" && !PkgIs(fn, pkgSuffix) {
			continue
		}
		out = append(out, fn)
	}
	return out
}

// PkgIs reports whether fn belongs to the repo package ModulePath+"/"+suffix
// (suffix "." = the root package).
func PkgIs(fn *ssa.Function, suffix string) bool {
	pk := fn.Package()
	for f := fn; pk == nil && f.Parent() != nil; {
		f = f.Parent()
		pk = f.Package()
	}
	if pk == nil {
		return false
	}
	path := pk.Pkg.Path()
	if suffix == "." {
		return path == ModulePath
	}
	return path == ModulePath+"/"+suffix
}

// FuncName is a stable symbolic name: pkg.(*T).M, pkg.F, pkg.F$1.
func FuncName(fn *ssa.Function) string {
	if fn == nil {
		return "<nil>"
	}
	s := fn.String()
	s = strings.ReplaceAll(s, ModulePath+"/", "")
	s = strings.ReplaceAll(s, ModulePath, "grpchan")
	return s
}

// Func finds a function by its FuncName; nil if absent.
func (p *Prog) Func(name string) *ssa.Function {
	for _, fn := range p.Funcs {
		if FuncName(fn) == name {
			return fn
		}
	}
	return nil
}

// Pos renders a position relative to the repo directory.
func (p *Prog) Pos(pos token.Pos) string {
	if !pos.IsValid() {
		return "-"
	}
	ps := p.Fset.Position(pos)
	rel, err := filepath.Rel(p.RepoDir, ps.Filename)
	if err != nil {
		rel = ps.Filename
	}
	return fmt.Sprintf("%s:%d", rel, ps.Line)
}

// Named looks up a named type in a repo package by suffix and name.
func (p *Prog) Named(pkgSuffix, name string) *types.Named {
	path := ModulePath
	if pkgSuffix != "." && pkgSuffix != "" {
		path += "/" + pkgSuffix
	}
	pk := p.Pkgs[path]
	if pk == nil {
		return nil
	}
	// a canonical (role) name registered for a private type of that package wins
	for tn, alias := range TypeAlias {
		if alias == name && tn.Pkg() == pk.Types {
			n, _ := tn.Type().(*types.Named)
			return n
		}
	}
	o := pk.Types.Scope().Lookup(name)
	if o == nil {
		return nil
	}
	n, _ := o.Type().(*types.Named)
	return n
}

// ExtType finds a named type of a dependency package (e.g. grpc.ClientStream).
func (p *Prog) ExtType(pkgPath, name string) types.Type {
	for _, pk := range p.All {
		if pk.PkgPath == pkgPath && pk.Types != nil {
			if o := pk.Types.Scope().Lookup(name); o != nil {
				return o.Type()
			}
		}
	}
	return nil
}

// Implementers returns the named struct types declared in hand-written
// library code whose pointer (or value) implements iface.
func (p *Prog) Implementers(iface types.Type) []*types.Named {
	it, ok := iface.Underlying().(*types.Interface)
	if !ok {
		return nil
	}
	var out []*types.Named
	var paths []string
	for path := range p.Pkgs {
		paths = append(paths, path)
	}
	sort.Strings(paths)
	for _, path := range paths {
		sc := p.Pkgs[path].Types.Scope()
		for _, n := range sc.Names() {
			tn, ok := sc.Lookup(n).(*types.TypeName)
			if !ok || tn.IsAlias() {
				continue
			}
			nt, ok := tn.Type().(*types.Named)
			if !ok || !p.IsLibFile(tn.Pos()) {
				continue
			}
			if _, isIface := nt.Underlying().(*types.Interface); isIface {
				continue
			}
			if types.Implements(nt, it) || types.Implements(types.NewPointer(nt), it) {
				out = append(out, nt)
			}
		}
	}
	return out
}

// Method returns the SSA function of method name on *nt (or nt).
func (p *Prog) Method(nt *types.Named, name string) *ssa.Function {
	for _, t := range []types.Type{types.NewPointer(nt), nt} {
		ms := p.SSA.MethodSets.MethodSet(t)
		for i := 0; i < ms.Len(); i++ {
			if ms.At(i).Obj().Name() == name {
				f := p.SSA.MethodValue(ms.At(i))
				if f != nil && f.Synthetic != "" {
					// wrapper/thunk: find the declared one
					if obj, ok := ms.At(i).Obj().(*types.Func); ok {
						if d := p.SSA.FuncValue(obj); d != nil {
							return d
						}
					}
				}
				return f
			}
		}
	}
	return nil
}

// FileOf returns the syntax tree of the file containing pos.
func (p *Prog) FileOf(pos token.Pos) (*ast.File, *packages.Package) {
	for _, pk := range p.Pkgs {
		for _, f := range pk.Syntax {
			if f.Pos() <= pos && pos <= f.End() {
				return f, pk
			}
		}
	}
	return nil, nil
}

// FuncDecl finds the declaration syntax of a top-level function/method.
func (p *Prog) FuncDecl(fn *ssa.Function) (*ast.FuncDecl, *packages.Package) {
	if fn == nil {
		return nil, nil
	}
	if d, ok := fn.Syntax().(*ast.FuncDecl); ok {
		_, pk := p.FileOf(d.Pos())
		return d, pk
	}
	return nil, nil
}

// VarInit returns the initialiser expression of a package-level variable of a
// repo package (nil if it has none or is not found).
func (p *Prog) VarInit(obj types.Object) ast.Expr {
	if obj == nil || obj.Pkg() == nil {
		return nil
	}
	pk := p.Pkgs[obj.Pkg().Path()]
	if pk == nil {
		return nil
	}
	for _, f := range pk.Syntax {
		for _, d := range f.Decls {
			gd, ok := d.(*ast.GenDecl)
			if !ok || gd.Tok != token.VAR {
				continue
			}
			for _, sp := range gd.Specs {
				vs := sp.(*ast.ValueSpec)
				for i, n := range vs.Names {
					if pk.TypesInfo.Defs[n] == obj && i < len(vs.Values) {
						return vs.Values[i]
					}
				}
			}
		}
	}
	return nil
}
