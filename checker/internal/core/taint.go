package core

import (
	"go/token"
	"go/types"

	"golang.org/x/tools/go/ssa"
)

// TaintSpec parametrises the forward may-taint analysis (E-taint).
type TaintSpec struct {
	Name string
	// IsSource: v itself is a tainted value (e.g. the error extracted from a
	// binary.Read call).
	IsSource func(v ssa.Value) bool
	// IsSanitizer: the results of call are clean whatever its arguments.
	IsSanitizer func(call *ssa.CallCommon) bool
	// CleanedBy: the value that is known clean when fact f holds (or nil).
	CleanedBy func(f Fact) ssa.Value
	// Passthrough: for calls without analysed body: argument indexes whose
	// taint flows to the results.
	Passthrough func(call *ssa.CallCommon) []int
	// FieldSource: loads of this field ("pkg.Type.field") are tainted.
	FieldSource func(key string) bool
	// CleansAll: when fact f holds on an edge, every value produced so far is
	// clean (e.g. "ctx.Err() == nil": no earlier error was caused by the context).
	CleansAll func(f Fact) bool
}

// Taint is the result of the analysis over a set of functions.
type Taint struct {
	Spec  TaintSpec
	Fns   []*ssa.Function
	inSet map[*ssa.Function]bool

	cellAny   map[*ssa.Alloc]bool                    // some store of a tainted value into the cell
	cellBy    map[*ssa.Function]map[*ssa.Alloc]bool  // … made by this function (or its nested literals)
	fieldAny  map[string]bool                        // some store of a tainted value into the field
	param     map[*ssa.Parameter]bool                // context-insensitive parameter taint (from call sites)
	intrinsic map[*ssa.Function][]bool               // result tainted with clean params
	pass      map[*ssa.Function]map[int]map[int]bool // result i tainted if param j is
	retBase   map[*ssa.Function][]bool               // result tainted in the base run
	in        map[*ssa.BasicBlock]map[ssa.Value]bool // base-run block entry states
	phi       map[*ssa.Phi]bool
	changed   bool
	Rounds    int
}

type taintRun struct {
	t        *Taint
	fn       *ssa.Function
	params   map[*ssa.Parameter]bool
	record   bool
	in       map[*ssa.BasicBlock]map[ssa.Value]bool
	ret      []bool
	localKey map[*ssa.Alloc]ssa.Value // cell → address value in this function
	visiting map[ssa.Value]bool
}

// NewTaint runs the analysis to a fixed point over fns (closures included by
// the caller).
func NewTaint(spec TaintSpec, fns []*ssa.Function) *Taint {
	t := &Taint{Spec: spec, Fns: fns, inSet: map[*ssa.Function]bool{},
		cellAny: map[*ssa.Alloc]bool{}, cellBy: map[*ssa.Function]map[*ssa.Alloc]bool{}, fieldAny: map[string]bool{},
		param: map[*ssa.Parameter]bool{}, intrinsic: map[*ssa.Function][]bool{}, pass: map[*ssa.Function]map[int]map[int]bool{},
		retBase: map[*ssa.Function][]bool{}, in: map[*ssa.BasicBlock]map[ssa.Value]bool{}, phi: map[*ssa.Phi]bool{}}
	for _, f := range fns {
		t.inSet[f] = true
	}
	for round := 0; round < 12; round++ {
		t.changed = false
		t.Rounds = round + 1
		for _, fn := range fns {
			if fn.Blocks == nil {
				continue
			}
			// intrinsic run (params clean)
			r := t.run(fn, map[*ssa.Parameter]bool{}, false)
			t.setRet(t.intrinsic, fn, r.ret)
			// pass-through runs
			if fn.Parent() == nil {
				for j, p := range fn.Params {
					if _, isIface := p.Type().Underlying().(*types.Interface); !isIface {
						continue
					}
					rj := t.run(fn, map[*ssa.Parameter]bool{p: true}, false)
					for i, b := range rj.ret {
						if b && !(i < len(r.ret) && r.ret[i]) {
							if t.pass[fn] == nil {
								t.pass[fn] = map[int]map[int]bool{}
							}
							if t.pass[fn][i] == nil {
								t.pass[fn][i] = map[int]bool{}
							}
							if !t.pass[fn][i][j] {
								t.pass[fn][i][j] = true
								t.changed = true
							}
						}
					}
				}
			}
			// base run (context-insensitive params), recording side effects
			pm := map[*ssa.Parameter]bool{}
			for _, p := range fn.Params {
				if t.param[p] {
					pm[p] = true
				}
			}
			rb := t.run(fn, pm, true)
			t.setRet(t.retBase, fn, rb.ret)
			for b, st := range rb.in {
				t.in[b] = st
			}
		}
		if !t.changed {
			break
		}
	}
	return t
}

func (t *Taint) setRet(m map[*ssa.Function][]bool, fn *ssa.Function, ret []bool) {
	old := m[fn]
	if len(old) != len(ret) {
		m[fn] = ret
		t.changed = true
		return
	}
	for i := range ret {
		if ret[i] != old[i] {
			m[fn] = ret
			t.changed = true
			return
		}
	}
}

func fieldKey(base types.Type, idx int) string {
	if p, ok := base.Underlying().(*types.Pointer); ok {
		base = p.Elem()
	}
	st, ok := base.Underlying().(*types.Struct)
	if !ok {
		return ""
	}
	return QualNamedOf(base) + "." + FieldName(st, idx)
}

// closureFn resolves a called value to a function literal of the analysed set.
func (r *taintRun) closureFn(v ssa.Value) *ssa.Function {
	for _, o := range originsNoLoad(v) {
		if mc, ok := o.(*ssa.MakeClosure); ok {
			return mc.Fn.(*ssa.Function)
		}
		if f, ok := o.(*ssa.Function); ok && f.Parent() != nil {
			return f
		}
	}
	return nil
}

func (r *taintRun) val(v ssa.Value, st map[ssa.Value]bool) bool {
	if v == nil {
		return false
	}
	if b, ok := st[v]; ok {
		return b
	}
	t := r.t
	switch x := v.(type) {
	case *ssa.Parameter:
		return r.params[x]
	case *ssa.Phi:
		if r.visiting == nil {
			r.visiting = map[ssa.Value]bool{}
		}
		if r.visiting[v] {
			return false
		}
		r.visiting[v] = true
		defer delete(r.visiting, v)
		for _, e := range x.Edges {
			if e != v && r.val(e, st) {
				return true
			}
		}
		return false
	case *ssa.ChangeInterface:
		return r.val(x.X, st)
	case *ssa.MakeInterface:
		return r.val(x.X, st)
	case *ssa.ChangeType:
		return r.val(x.X, st)
	case *ssa.Convert:
		return r.val(x.X, st)
	case *ssa.TypeAssert:
		return r.val(x.X, st)
	case *ssa.Extract:
		switch tu := x.Tuple.(type) {
		case *ssa.Call:
			return r.callResult(tu, x.Index, st)
		case *ssa.TypeAssert:
			if x.Index == 0 {
				return r.val(tu.X, st)
			}
		}
		return false
	case *ssa.Call:
		return r.callResult(x, 0, st)
	case *ssa.UnOp:
		if x.Op != token.MUL {
			return false
		}
		switch a := x.X.(type) {
		case *ssa.Alloc, *ssa.FreeVar:
			return st[a]
		case *ssa.FieldAddr:
			k := fieldKey(a.X.Type(), a.Field)
			if t.Spec.FieldSource != nil && t.Spec.FieldSource(k) {
				return true
			}
			return t.fieldAny[k]
		}
		return false
	case *ssa.Field:
		k := fieldKey(x.X.Type(), x.Field)
		if t.Spec.FieldSource != nil && t.Spec.FieldSource(k) {
			return true
		}
		return t.fieldAny[k]
	}
	return false
}

func (r *taintRun) callResult(call *ssa.Call, idx int, st map[ssa.Value]bool) bool {
	t := r.t
	cc := &call.Call
	if t.Spec.IsSanitizer != nil && t.Spec.IsSanitizer(cc) {
		return false
	}
	ci := InfoOf(cc)
	var callee *ssa.Function
	if ci.Static != nil && t.inSet[ci.Static] {
		callee = ci.Static
	} else if f := r.closureFn(cc.Value); f != nil && t.inSet[f] {
		callee = f
	}
	if callee != nil {
		if callee.Parent() != nil {
			rb := t.retBase[callee]
			return idx < len(rb) && rb[idx]
		}
		in := t.intrinsic[callee]
		if idx < len(in) && in[idx] {
			return true
		}
		for j, ok := range t.pass[callee][idx] {
			if ok && j < len(cc.Args) && r.val(cc.Args[j], st) {
				return true
			}
		}
		return false
	}
	if t.Spec.Passthrough != nil {
		args := Args(cc)
		for _, j := range t.Spec.Passthrough(cc) {
			if j < len(args) && r.val(args[j], st) {
				return true
			}
		}
	}
	return false
}

func cloneTS(m map[ssa.Value]bool) map[ssa.Value]bool {
	o := make(map[ssa.Value]bool, len(m))
	for k, v := range m {
		o[k] = v
	}
	return o
}

// freshLoadCell: v is a load of a cell made in block b with no later store to
// that cell in b: returns the cell address.
func freshLoadCell(v ssa.Value, b *ssa.BasicBlock) ssa.Value {
	u, ok := v.(*ssa.UnOp)
	if !ok || u.Op != token.MUL || u.Block() != b {
		return nil
	}
	switch u.X.(type) {
	case *ssa.Alloc, *ssa.FreeVar:
	default:
		return nil
	}
	after := false
	for _, in := range b.Instrs {
		if in == ssa.Instruction(u) {
			after = true
			continue
		}
		if after {
			if s, ok := in.(*ssa.Store); ok && s.Addr == u.X {
				return nil
			}
			if CallOf(in) != nil {
				// a call may run a closure writing the cell; be conservative only
				// for dynamic/closure calls
				if InfoOf(CallOf(in)).Dyn {
					return nil
				}
			}
		}
	}
	return u.X
}

func (r *taintRun) step(in ssa.Instruction, st map[ssa.Value]bool) {
	t := r.t
	// a source taints the value it defines, at the definition
	if v, ok := in.(ssa.Value); ok && t.Spec.IsSource != nil && t.Spec.IsSource(v) {
		st[v] = true
	}
	switch x := in.(type) {
	case *ssa.Store:
		tv := r.val(x.Val, st)
		switch a := x.Addr.(type) {
		case *ssa.Alloc, *ssa.FreeVar:
			st[a] = tv
			if tv && r.record {
				if al, ok := ResolveFree(a).(*ssa.Alloc); ok {
					if !t.cellAny[al] {
						t.cellAny[al] = true
						t.changed = true
					}
					for f := r.fn; f != nil; f = f.Parent() {
						if t.cellBy[f] == nil {
							t.cellBy[f] = map[*ssa.Alloc]bool{}
						}
						if !t.cellBy[f][al] {
							t.cellBy[f][al] = true
							t.changed = true
						}
					}
				}
			}
		case *ssa.FieldAddr:
			if tv && r.record {
				k := fieldKey(a.X.Type(), a.Field)
				if k != "" && !t.fieldAny[k] {
					t.fieldAny[k] = true
					t.changed = true
				}
			}
		}
	case *ssa.UnOp:
		if x.Op == token.MUL {
			switch a := x.X.(type) {
			case *ssa.Alloc, *ssa.FreeVar:
				st[x] = st[a]
			}
		}
	case *ssa.RunDefers:
		Instrs(r.fn, func(d ssa.Instruction) {
			if df, ok := d.(*ssa.Defer); ok {
				r.applyClosureWrites(&df.Call, st)
			}
		})
	case *ssa.Return:
		for i, res := range x.Results {
			if r.val(res, st) {
				for len(r.ret) <= i {
					r.ret = append(r.ret, false)
				}
				r.ret[i] = true
			}
		}
	}
	if cc := CallOf(in); cc != nil {
		// parameter taint of analysed callees
		if r.record {
			var callee *ssa.Function
			ci := InfoOf(cc)
			if ci.Static != nil && t.inSet[ci.Static] {
				callee = ci.Static
			} else if f := r.closureFn(cc.Value); f != nil && t.inSet[f] {
				callee = f
			}
			if callee != nil {
				args := cc.Args
				for j, a := range args {
					if j < len(callee.Params) && r.val(a, st) && !t.param[callee.Params[j]] {
						t.param[callee.Params[j]] = true
						t.changed = true
					}
				}
			}
		}
		if _, isDefer := in.(*ssa.Defer); !isDefer {
			r.applyClosureWrites(cc, st)
		}
	}
}

// applyClosureWrites: a called/started closure may store tainted values into
// cells visible here.
func (r *taintRun) applyClosureWrites(cc *ssa.CallCommon, st map[ssa.Value]bool) {
	f := r.closureFn(cc.Value)
	if f == nil {
		return
	}
	for al := range r.t.cellBy[f] {
		if k := r.localKey[al]; k != nil {
			st[k] = true
		}
	}
}

func (t *Taint) run(fn *ssa.Function, params map[*ssa.Parameter]bool, record bool) *taintRun {
	r := &taintRun{t: t, fn: fn, params: params, record: record, in: map[*ssa.BasicBlock]map[ssa.Value]bool{}, localKey: map[*ssa.Alloc]ssa.Value{}}
	r.ret = make([]bool, fn.Signature.Results().Len())
	entry := map[ssa.Value]bool{}
	for _, fv := range fn.FreeVars {
		if al, ok := ResolveFree(fv).(*ssa.Alloc); ok {
			r.localKey[al] = fv
			if t.cellAny[al] {
				entry[fv] = true
			}
		}
	}
	Instrs(fn, func(in ssa.Instruction) {
		if al, ok := in.(*ssa.Alloc); ok {
			r.localKey[al] = al
		}
	})
	// cells written by goroutines started here are tainted from the start
	Instrs(fn, func(in ssa.Instruction) {
		if g, ok := in.(*ssa.Go); ok {
			if f := r.closureFn(g.Call.Value); f != nil {
				for al := range t.cellBy[f] {
					if k := r.localKey[al]; k != nil {
						entry[k] = true
					}
				}
			}
		}
	})
	type ek struct {
		b *ssa.BasicBlock
		i int
	}
	outs := map[ek]map[ssa.Value]bool{}
	r.in[fn.Blocks[0]] = entry
	work := []*ssa.BasicBlock{fn.Blocks[0]}
	inWork := map[*ssa.BasicBlock]bool{fn.Blocks[0]: true}
	for iter := 0; len(work) > 0 && iter < 20000; iter++ {
		b := work[0]
		work = work[1:]
		inWork[b] = false
		st := cloneTS(r.in[b])
		for _, in := range b.Instrs {
			phi, ok := in.(*ssa.Phi)
			if !ok {
				break
			}
			tv := false
			for i, e := range phi.Edges {
				pred := b.Preds[i]
				for si, s := range pred.Succs {
					if s == b {
						if o, ok := outs[ek{pred, si}]; ok && r.val(e, o) {
							tv = true
						}
					}
				}
			}
			st[phi] = tv
			if record {
				t.phi[phi] = tv
			}
		}
		for _, in := range b.Instrs {
			r.step(in, st)
		}
		for si, s := range b.Succs {
			o := cloneTS(st)
			if iff, ok := b.Instrs[len(b.Instrs)-1].(*ssa.If); ok && b.Succs[0] != b.Succs[1] {
				f := CondFact(iff.Cond, si == 0)
				var cleaned []ssa.Value
				if t.Spec.CleanedBy != nil {
					if v := t.Spec.CleanedBy(f); v != nil {
						cleaned = append(cleaned, v)
					}
				}
				if f.Op == token.EQL && IsNilConst(f.Y) {
					cleaned = append(cleaned, f.X)
				}
				for _, v := range cleaned {
					o[v] = false
					if c := freshLoadCell(v, b); c != nil {
						o[c] = false
					}
				}
				if t.Spec.CleansAll != nil && t.Spec.CleansAll(f) {
					for k, tv := range o {
						if tv {
							o[k] = false
						}
					}
					// tainted parameters are not in the state until something mentions them
					for p, tv := range r.params {
						if tv {
							o[p] = false
						}
					}
				}
			}
			outs[ek{b, si}] = o
			cur, seen := r.in[s]
			changed := false
			if !seen {
				r.in[s] = cloneTS(o)
				changed = true
			} else {
				for k := range o {
					if _, has := cur[k]; !has {
						cur[k] = r.val(k, cur) // materialise what the other paths imply
					}
				}
				for k, cv := range cur {
					if !cv && r.val(k, o) {
						cur[k] = true
						changed = true
					}
				}
			}
			if changed && !inWork[s] {
				work = append(work, s)
				inWork[s] = true
			}
		}
	}
	return r
}

// At reports whether v may be tainted just before instruction at (base run).
func (t *Taint) At(v ssa.Value, at ssa.Instruction) bool {
	fn := at.Parent()
	pm := map[*ssa.Parameter]bool{}
	for _, p := range fn.Params {
		if t.param[p] {
			pm[p] = true
		}
	}
	r := &taintRun{t: t, fn: fn, params: pm, localKey: map[*ssa.Alloc]ssa.Value{}}
	for _, fv := range fn.FreeVars {
		if al, ok := ResolveFree(fv).(*ssa.Alloc); ok {
			r.localKey[al] = fv
		}
	}
	Instrs(fn, func(in ssa.Instruction) {
		if al, ok := in.(*ssa.Alloc); ok {
			r.localKey[al] = al
		}
	})
	b := at.Block()
	base, ok := t.in[b]
	if !ok {
		return false // unreachable
	}
	st := cloneTS(base)
	// phis were evaluated in the run and live in successor states only through
	// st entries set at block processing; recompute conservatively
	for _, in := range b.Instrs {
		if in == at {
			break
		}
		if phi, ok := in.(*ssa.Phi); ok {
			st[phi] = t.phi[phi]
			continue
		}
		r.step(in, st)
	}
	return r.val(v, st)
}

// FieldTainted reports whether some store puts a tainted value into the field.
func (t *Taint) FieldTainted(key string) bool { return t.fieldAny[key] }

// ResultTainted reports whether result i of fn may be tainted (base run).
func (t *Taint) ResultTainted(fn *ssa.Function, i int) bool {
	rb := t.retBase[fn]
	return i < len(rb) && rb[i]
}
