package core

import (
	"go/token"
	"go/types"

	"golang.org/x/tools/go/ssa"
)

// ErrClass classifies an error-typed SSA value (E-errclass).
type ErrClass int

const (
	ErrNil ErrClass = iota
	ErrNonNil
	ErrMaybe
)

func (e ErrClass) String() string { return [...]string{"nil", "non-nil", "maybe-nil"}[e] }

func joinErr(a, b ErrClass) ErrClass {
	if a == b {
		return a
	}
	return ErrMaybe
}

// ErrLeaf is one root an error value may originate from, with the program
// point at which it is "decided" (where dominating guards are evaluated).
type ErrLeaf struct {
	V     ssa.Value
	At    ssa.Instruction
	Class ErrClass
	// Succ is the block of the φ-node this leaf entered through when At is
	// the terminator of a predecessor (the edge At.Block()→Succ carries the
	// branch condition of At, which does not dominate At itself).
	Succ *ssa.BasicBlock
}

// LeafGuarded reports whether a fact accepted by pred holds where the leaf is
// decided: it dominates l.At, or it is the condition of the very edge through
// which the leaf's value flows into a φ-node.
func LeafGuarded(l ErrLeaf, pred func(Fact) bool) bool {
	if GuardedBy(l.At, pred) {
		return true
	}
	iff, ok := l.At.(*ssa.If)
	if !ok || l.Succ == nil {
		return false
	}
	b := iff.Block()
	if len(b.Succs) == 2 && b.Succs[0] != b.Succs[1] {
		for i, sc := range b.Succs {
			if sc == l.Succ {
				return pred(CondFact(iff.Cond, i == 0))
			}
		}
	}
	return false
}

// ErrLeaves decomposes v (as observed at instruction at) into its leaves,
// flow-sensitively: phi edges are evaluated at the end of their predecessor,
// loads from local cells at their reaching stores.
func ErrLeaves(v ssa.Value, at ssa.Instruction) []ErrLeaf {
	var out []ErrLeaf
	type key struct {
		v  ssa.Value
		at ssa.Instruction
	}
	seen := map[key]bool{}
	var succ *ssa.BasicBlock
	var rec func(v ssa.Value, at ssa.Instruction)
	rec = func(v ssa.Value, at ssa.Instruction) {
		k := key{v, at}
		if seen[k] {
			return
		}
		seen[k] = true
		switch x := v.(type) {
		case *ssa.Phi:
			for i, e := range x.Edges {
				pred := x.Block().Preds[i]
				saved := succ
				succ = x.Block()
				rec(e, pred.Instrs[len(pred.Instrs)-1])
				succ = saved
			}
			return
		case *ssa.ChangeInterface:
			rec(x.X, at)
			return
		case *ssa.ChangeType:
			rec(x.X, at)
			return
		case *ssa.UnOp:
			if x.Op == token.MUL {
				if _, ok := x.X.(*ssa.Alloc); ok {
					sts, zero := ReachingStores(x)
					for _, s := range sts {
						if s.Parent() == x.Parent() {
							rec(s.Val, s)
						} else {
							out = append(out, ErrLeaf{V: s.Val, At: s, Class: classifyRoot(s.Val, s)})
						}
					}
					if zero {
						out = append(out, ErrLeaf{V: x.X, At: at, Class: ErrNil})
					}
					if len(sts) > 0 || zero {
						return
					}
				}
			}
		}
		out = append(out, ErrLeaf{V: v, At: at, Class: classifyRoot(v, at), Succ: succ})
	}
	rec(v, at)
	return out
}

// ClassifyErr joins the classes of all leaves.
func ClassifyErr(v ssa.Value, at ssa.Instruction) ErrClass {
	ls := ErrLeaves(v, at)
	if len(ls) == 0 {
		return ErrMaybe
	}
	c := ls[0].Class
	for _, l := range ls[1:] {
		c = joinErr(c, l.Class)
	}
	return c
}

// NonNilErrCtors are functions whose error result is never nil.
var NonNilErrCtors = map[string]bool{
	"fmt.Errorf": true, "errors.New": true,
}

const statusPkgPath = "google.golang.org/grpc/status"

// StatusCtorCode: if v is status.Error/Errorf(code, …) with a constant code,
// returns it.
func StatusCtorCode(v ssa.Value) (int64, bool) {
	call, _, ok := CallResult(v)
	if !ok {
		return 0, false
	}
	ci := InfoOf(&call.Call)
	if ci.Is(statusPkgPath+".Error") || ci.Is(statusPkgPath+".Errorf") || ci.Is(statusPkgPath+".New") || ci.Is(statusPkgPath+".Newf") {
		return ConstInt(call.Call.Args[0])
	}
	return 0, false
}

// classifying guards the interprocedural step against recursion.
var classifying = map[*ssa.Function]bool{}

func classifyRoot(v ssa.Value, at ssa.Instruction) ErrClass {
	if IsNilConst(v) {
		return ErrNil
	}
	if _, ok := v.(*ssa.Alloc); ok {
		return ErrNil // zero value of a cell
	}
	if mi, ok := v.(*ssa.MakeInterface); ok {
		// boxing a concrete value: non-nil interface (even if the pointer is nil)
		_ = mi
		return ErrNonNil
	}
	if call, idx, ok := CallResult(v); ok {
		ci := InfoOf(&call.Call)
		if NonNilErrCtors[ci.Full()] {
			return ErrNonNil
		}
		if ci.Is(statusPkgPath+".Error") || ci.Is(statusPkgPath+".Errorf") {
			if code, ok := ConstInt(call.Call.Args[0]); ok {
				if code != 0 {
					return ErrNonNil
				}
				return ErrNil
			}
		}
		// repo function whose every return is non-nil at that result index
		if ci.Static != nil && ci.Static.Blocks != nil && ci.Static != at.Parent() && !classifying[ci.Static] && len(classifying) < 6 {
			classifying[ci.Static] = true
			defer delete(classifying, ci.Static)
			all := true
			any := false
			for _, r := range Returns(ci.Static) {
				if idx < len(r.Results) {
					any = true
					for _, l := range ErrLeaves(r.Results[idx], r) {
						if l.Class == ErrNonNil {
							continue
						}
						// pass-through of a parameter: non-nil iff the argument is
						passed := false
						if par, ok := l.V.(*ssa.Parameter); ok {
							for j, pp := range ci.Static.Params {
								if pp == par && j < len(call.Call.Args) && ClassifyErr(call.Call.Args[j], at) == ErrNonNil {
									passed = true
								}
							}
						}
						if !passed {
							all = false
						}
					}
				}
			}
			if any && all {
				return ErrNonNil
			}
		}
	}
	// context axiom: after <-ctx.Done() was selected, ctx.Err() != nil
	if call, ok := v.(*ssa.Call); ok && call.Call.IsInvoke() && call.Call.Method.Name() == "Err" && at != nil &&
		TypeStr(call.Call.Value.Type()) == "context.Context" {
		ctxV := call.Call.Value
		found := false
		Instrs(at.Parent(), func(in ssa.Instruction) {
			sel, ok := in.(*ssa.Select)
			if !ok || found {
				return
			}
			for i, st := range sel.States {
				dc, ok := st.Chan.(*ssa.Call)
				if !ok || !dc.Call.IsInvoke() || dc.Call.Method.Name() != "Done" {
					continue
				}
				if !(dc.Call.Value == ctxV || SameVal(dc.Call.Value, ctxV)) {
					continue
				}
				idx := int64(i)
				if GuardedBy(at, func(f Fact) bool {
					if f.Op != token.EQL {
						return false
					}
					ex, ok := f.X.(*ssa.Extract)
					k, isC := ConstInt(f.Y)
					return ok && ex.Tuple == ssa.Value(sel) && ex.Index == 0 && isC && k == idx
				}) {
					found = true
				}
			}
		})
		if found {
			return ErrNonNil
		}
	}
	if g, ok := GlobalLoad(v); ok && g != "" {
		if IsErrorType(v.Type()) {
			return ErrNonNil // package-level sentinel (io.EOF, io.ErrUnexpectedEOF, …)
		}
	}
	// dominating guards at the decision point
	if at != nil {
		for _, ef := range DominatingFacts(at) {
			f := ef.Fact
			if !IsNilConst(f.Y) {
				continue
			}
			if f.X == v || SameVal(f.X, v) {
				if f.X != v && fieldWrittenBetween(ef, v, at) {
					// another load of the same field, but the field is assigned between the test and here
					continue
				}
				if f.Op == token.NEQ {
					return ErrNonNil
				}
				if f.Op == token.EQL {
					return ErrNil
				}
			}
		}
	}
	return ErrMaybe
}

// IsErrorValue reports whether v has the predeclared error type.
func IsErrorValue(v ssa.Value) bool { return IsErrorType(v.Type()) }

// ErrResultIndex returns the index of the error result of a signature, or -1.
func ErrResultIndex(sig *types.Signature) int {
	for i := 0; i < sig.Results().Len(); i++ {
		if IsErrorType(sig.Results().At(i).Type()) {
			return i
		}
	}
	return -1
}

// fieldWrittenBetween: v is a load of a struct field; reports whether a store
// to that field (same field of the same struct type, any base) lies on a path
// from the edge of ef to at.
func fieldWrittenBetween(ef EdgeFact, v ssa.Value, at ssa.Instruction) bool {
	u, ok := v.(*ssa.UnOp)
	if !ok || u.Op != token.MUL {
		return false
	}
	fa, ok := u.X.(*ssa.FieldAddr)
	if !ok || ef.B == nil || ef.Succ >= len(ef.B.Succs) {
		return false
	}
	st := derefStruct(fa.X.Type())
	start := Loc{ef.B.Succs[ef.Succ], 0}
	found := false
	Instrs(at.Parent(), func(in ssa.Instruction) {
		s, isS := in.(*ssa.Store)
		if !isS || found {
			return
		}
		fb, isF := s.Addr.(*ssa.FieldAddr)
		if !isF || fb.Field != fa.Field || derefStruct(fb.X.Type()) != st {
			return
		}
		if Reachable(start, s) && Reachable(After(s), at) {
			found = true
		}
	})
	return found
}
