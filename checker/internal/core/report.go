package core

import (
	"encoding/json"
	"fmt"
	"go/token"
	"os"
	"path/filepath"
	"sort"
	"strings"
	"time"
)

// Status of an obligation.
type Status string

const (
	Discharged Status = "discharged"
	Violated   Status = "violated"
	Known      Status = "known"
)

// Obligation is one (rule, construct) instance and its verdict.
type Obligation struct {
	Rule      string `json:"rule"`      // e.g. "C14/R1"
	Construct string `json:"construct"` // symbolic key, never a line number
	Pos       string `json:"pos"`       // file:line, for humans
	Status    Status `json:"status"`
	Why       string `json:"why"`
	Trivial   bool   `json:"-"` // discharged because no such construct / nothing to show
}

// RuleDoc documents a rule for the evidence file.
type RuleDoc struct {
	ID    string `json:"id"`
	Text  string `json:"text"`
	Floor int    `json:"min_instances"`
}

// Ctx collects the obligations of one property run.
type Ctx struct {
	P        *Prog
	Prop     string
	Tier     string
	Only     string // restrict to one rule id ("" = all)
	Obs      []Obligation
	Rules    []RuleDoc
	Notes    []string
	Assume   []string
	NotDec   []string
	curRule  string
	counts   map[string]int
	Explain  string
	CallSite int
	Paths    int

	borrow     map[string]string // see Borrow
	borrowFrom string
}

func NewCtx(p *Prog, prop, tier string) *Ctx {
	return &Ctx{P: p, Prop: prop, Tier: tier, counts: map[string]int{}}
}

// Rule starts a rule; floor is the minimum number of instances that must be
// found (role floor), 0 for zero-count rules.
func (c *Ctx) Rule(id, text string, floor int) bool {
	if c.borrow != nil {
		nid, ok := c.borrow[id]
		if !ok {
			return false
		}
		text = "(obligations of " + c.borrowFrom + "/" + id + ", a necessary condition of this property too) " + text
		id = nid
	}
	full := c.Prop + "/" + id
	c.curRule = full
	c.Rules = append(c.Rules, RuleDoc{ID: full, Text: text, Floor: floor})
	return c.Only == "" || c.Only == id || c.Only == full
}

// Active reports whether rule id is selected.
func (c *Ctx) Active(id string) bool {
	return c.Only == "" || c.Only == id || c.Only == c.Prop+"/"+id
}

func (c *Ctx) add(st Status, construct string, pos token.Pos, why string, trivial bool) {
	c.counts[c.curRule]++
	c.Obs = append(c.Obs, Obligation{Rule: c.curRule, Construct: construct, Pos: c.P.Pos(pos), Status: st, Why: why, Trivial: trivial})
}

// Ok records a discharged obligation with a non-empty argument.
func (c *Ctx) Ok(construct string, pos token.Pos, why string, a ...interface{}) {
	c.add(Discharged, construct, pos, fmt.Sprintf(why, a...), false)
}

// OkTrivial records an obligation discharged vacuously ("no such construct").
func (c *Ctx) OkTrivial(construct string, pos token.Pos, why string, a ...interface{}) {
	c.add(Discharged, construct, pos, fmt.Sprintf(why, a...), true)
}

// Fail records a violated obligation.
func (c *Ctx) Fail(construct string, pos token.Pos, why string, a ...interface{}) {
	c.add(Violated, construct, pos, fmt.Sprintf(why, a...), false)
}

// Undecided records an obligation the engine could not decide; fails closed.
func (c *Ctx) Undecided(construct string, pos token.Pos, why string, a ...interface{}) {
	c.add(Violated, construct, pos, "UNDECIDED: "+fmt.Sprintf(why, a...), false)
}

// Check records Ok or Fail.
func (c *Ctx) Check(cond bool, construct string, pos token.Pos, okWhy, failWhy string) bool {
	if cond {
		c.Ok(construct, pos, "%s", okWhy)
	} else {
		c.Fail(construct, pos, "%s", failWhy)
	}
	return cond
}

// Missing records a missing anchor (role bearer not found).
func (c *Ctx) Missing(what string) {
	c.add(Violated, "anchor:"+what, token.NoPos, "ANCHOR-MISSING: "+what+" not found in the analysed tree; the property cannot be shown on code the checker cannot find", false)
}

// EndRule enforces the floor of the current rule.
func (c *Ctx) EndRule() {
	for _, r := range c.Rules {
		if r.ID == c.curRule && c.counts[c.curRule] < r.Floor {
			c.add(Violated, "floor", token.NoPos, fmt.Sprintf("ANCHOR-MISSING: rule matched %d instances, floor is %d (a rule matching nothing passes vacuously)", c.counts[c.curRule], r.Floor), false)
		}
	}
}

// ---------------------------------------------------------------------------
// known findings

type KnownEntry struct {
	Property  string `json:"property"`
	Rule      string `json:"rule"`
	Construct string `json:"construct"`
	What      string `json:"what"`
}
type FixedEntry struct {
	Property string `json:"property"`
	Commit   string `json:"commit"`
	What     string `json:"what"`
}
type KnownFile struct {
	Known []KnownEntry `json:"known"`
	Fixed []FixedEntry `json:"fixed"`
}

func LoadKnown(path string) (*KnownFile, error) {
	var kf KnownFile
	b, err := os.ReadFile(path)
	if err != nil {
		if os.IsNotExist(err) {
			return &kf, nil
		}
		return nil, err
	}
	if err := json.Unmarshal(b, &kf); err != nil {
		return nil, fmt.Errorf("%s: %v", path, err)
	}
	return &kf, nil
}

// ---------------------------------------------------------------------------
// finishing a run

type Result struct {
	Violations int
	KnownHits  int
}

// Finish prints the report, writes evidence and the replay file.
func (c *Ctx) Finish(verifDir string, kf *KnownFile, start time.Time, seed int) Result {
	var res Result
	// apply known findings
	for i := range c.Obs {
		o := &c.Obs[i]
		if o.Status != Violated {
			continue
		}
		for _, k := range kf.Known {
			if k.Property == c.Prop && k.Rule == o.Rule && k.Construct == o.Construct {
				o.Status = Known
				fmt.Printf("KNOWN-FINDING: property=%s %s [%s %s]\n", c.Prop, k.What, o.Rule, o.Construct)
				res.KnownHits++
			}
		}
	}
	var viol []Obligation
	disch, nontriv := 0, 0
	seen := map[string]bool{}
	perRule := map[string][3]int{}
	for _, o := range c.Obs {
		pr := perRule[o.Rule]
		switch o.Status {
		case Violated:
			viol = append(viol, o)
			pr[1]++
		case Discharged:
			disch++
			pr[0]++
			key := o.Rule + "|" + o.Construct
			if !o.Trivial && !seen[key] {
				seen[key] = true
				nontriv++
			}
		case Known:
			pr[2]++
		}
		perRule[o.Rule] = pr
	}
	res.Violations = len(viol)

	fmt.Printf("property %s tier=%s: packages=%d functions=%d rules=%d obligations=%d discharged=%d known=%d violated=%d\n",
		c.Prop, c.Tier, len(c.P.Pkgs), len(c.P.Funcs), len(c.Rules), len(c.Obs), disch, res.KnownHits, len(viol))
	var rids []string
	for _, r := range c.Rules {
		rids = append(rids, r.ID)
	}
	for _, r := range c.Rules {
		pr := perRule[r.ID]
		fmt.Printf("  %-8s ok=%-3d viol=%-2d known=%-2d %s\n", r.ID, pr[0], pr[1], pr[2], r.Text)
	}
	evDir := filepath.Join(verifDir, "evidence")
	os.MkdirAll(evDir, 0o755)
	replay := filepath.Join(evDir, c.Prop+".violation.json")
	if len(viol) > 0 {
		for _, o := range viol {
			fmt.Printf("%s: [%s] %s: %s\n", o.Pos, o.Rule, o.Construct, o.Why)
		}
		type rep struct {
			Property   string       `json:"property"`
			Tier       string       `json:"tier"`
			Repo       string       `json:"repo"`
			Violations []Obligation `json:"violations"`
			Rerun      []string     `json:"rerun"`
		}
		r := rep{Property: c.Prop, Tier: c.Tier, Repo: c.P.RepoDir, Violations: viol}
		rs := map[string]bool{}
		for _, o := range viol {
			if !rs[o.Rule] {
				rs[o.Rule] = true
				r.Rerun = append(r.Rerun, fmt.Sprintf("%s/bin/grpchanlint -prop %s -rule %s -repo %s", verifDir, c.Prop, strings.TrimPrefix(o.Rule, c.Prop+"/"), c.P.RepoDir))
			}
		}
		b, _ := json.MarshalIndent(r, "", " ")
		os.WriteFile(replay, b, 0o644)
		fmt.Printf("VIOLATION property=%s replay=%s\n", c.Prop, replay)
	} else {
		os.Remove(replay)
	}

	// development aid: every obligation with its position, appended to the named file
	if p := os.Getenv("GRPCHANLINT_DUMP"); p != "" {
		if f, err := os.OpenFile(p, os.O_APPEND|os.O_CREATE|os.O_WRONLY, 0o644); err == nil {
			for _, o := range c.Obs {
				b, _ := json.Marshal(o)
				f.Write(append(b, '\n'))
			}
			f.Close()
		}
	}

	// evidence
	var samples []interface{}
	perRuleSample := map[string]int{}
	for _, o := range c.Obs {
		if o.Trivial && o.Status == Discharged {
			continue
		}
		if perRuleSample[o.Rule] >= 3 && o.Status == Discharged {
			continue
		}
		perRuleSample[o.Rule]++
		samples = append(samples, o)
	}
	if len(samples) == 0 {
		for _, o := range c.Obs {
			samples = append(samples, o)
			if len(samples) >= 5 {
				break
			}
		}
	}
	sort.Strings(c.NotDec)
	cov := map[string]interface{}{
		"explanation": c.Explain +
			" Decided here: structural necessary conditions only (rules below); NOT decided: " + strings.Join(c.NotDec, "; ") + ".",
		"rules":               c.Rules,
		"packages":            len(c.P.Pkgs),
		"functions_analysed":  len(c.P.Funcs),
		"rule_instances":      len(c.Obs),
		"obligations":         len(c.Obs),
		"discharged":          disch,
		"known_findings":      res.KnownHits,
		"evaluations":         len(c.Obs),
		"distinct_nontrivial": nontriv,
		"rule":                "one obligation per (rule, construct) found in /repo's current source by role; non-trivial = discharged by a non-empty argument (dominating guard, path set, table row), distinct by (rule, construct key)",
		"samples":             samples,
		"per_rule":            perRule,
		"whole_program":       c.P.Whole,
		"grpc_version":        c.P.GrpcVer,
		"checker_cmd":         fmt.Sprintf("bin/grpchanlint -prop %s -tier %s -repo %s", c.Prop, c.Tier, c.P.RepoDir),
		"notes":               c.Notes,
	}
	ev := map[string]interface{}{
		"property_id": c.Prop,
		"tier":        c.Tier,
		"seed":        seed,
		"level":       "other",
		"coverage":    cov,
		"assumptions": append([]string{
			"go/types, go/ssa (x/tools v0.29.0) model the program faithfully",
			"library axioms of DESIGN.md §9 (context, sync, io, channel semantics)",
		}, c.Assume...),
		"wall_s":     time.Since(start).Seconds(),
		"violations": len(viol),
	}
	b, _ := json.MarshalIndent(ev, "", " ")
	if err := os.WriteFile(filepath.Join(evDir, c.Prop+".json"), b, 0o644); err != nil {
		fmt.Fprintf(os.Stderr, "cannot write evidence: %v\n", err)
	}
	return res
}

// Borrow runs another property's rule function under this property: only the
// rules named in ids are evaluated, each under the given id of this property.
// Used where a structural fact is a necessary condition of both properties;
// the obligations are evaluated again, under this property's rule id, so that
// each property's check stands alone.
func (c *Ctx) Borrow(from string, ids map[string]string, run func(*Ctx)) {
	if c.borrow != nil {
		return // a borrowed rule function does not borrow in turn
	}
	saved := c.Explain
	c.borrow, c.borrowFrom = ids, from
	run(c)
	c.borrow, c.borrowFrom = nil, ""
	c.Explain = saved
}
