package core

import (
	"fmt"
	"go/token"
	"go/types"

	"golang.org/x/tools/go/ssa"
)

// BoundOb is one index/slice expression that can panic at run time unless a
// dominating guard establishes that it is in range (E-bce, SSA enumerator).
type BoundOb struct {
	Instr  ssa.Instruction
	Desc   string // e.g. "method[0]"
	Proven bool
	Why    string
}

// SameVal is structural equality of SSA values (no CSE in go/ssa): identical,
// or loads of the same field of the same base, or equal constants.
func SameVal(a, b ssa.Value) bool {
	if a == b {
		return true
	}
	if a == nil || b == nil {
		return false
	}
	ca, oka := a.(*ssa.Const)
	cb, okb := b.(*ssa.Const)
	if oka && okb {
		return ca.Value != nil && cb.Value != nil && ca.Value.ExactString() == cb.Value.ExactString()
	}
	if fa, ok1 := a.(*ssa.FieldAddr); ok1 {
		if fb, ok2 := b.(*ssa.FieldAddr); ok2 {
			// the address of the same (embedded / grouping) struct field of the same base
			return fa.Field == fb.Field && SameVal(fa.X, fb.X)
		}
	}
	ua, oka := a.(*ssa.UnOp)
	ub, okb := b.(*ssa.UnOp)
	if oka && okb && ua.Op == token.MUL && ub.Op == token.MUL {
		fa, ok1 := ua.X.(*ssa.FieldAddr)
		fb, ok2 := ub.X.(*ssa.FieldAddr)
		if ok1 && ok2 && fa.Field == fb.Field && SameVal(fa.X, fb.X) {
			return true
		}
		if ResolveFree(ua.X) == ResolveFree(ub.X) {
			// two loads of the same local cell: equal only if no store between;
			// accepted for single-store cells
			if al, ok := ResolveFree(ua.X).(*ssa.Alloc); ok && len(StoresTo(al)) <= 1 {
				return true
			}
		}
	}
	return false
}

// lenOf: if v is len(x) returns x.
func lenOf(v ssa.Value) (ssa.Value, bool) {
	c, ok := v.(*ssa.Call)
	if !ok {
		return nil, false
	}
	b, ok := c.Call.Value.(*ssa.Builtin)
	if !ok || b.Name() != "len" {
		return nil, false
	}
	return c.Call.Args[0], true
}

// minLenFromFacts returns the largest lower bound on len(x) established by
// the edges dominating instr (0 if none).
func minLenFromFacts(x ssa.Value, instr ssa.Instruction) (int64, string) {
	best := int64(0)
	why := ""
	upd := func(n int64, w string) {
		if n > best {
			best = n
			why = w
		}
	}
	for _, ef := range DominatingFacts(instr) {
		f := ef.Fact
		if f.Op == token.ILLEGAL {
			// plain bool: strings.HasPrefix(g(x), "lit")
			if call, ok := f.X.(*ssa.Call); ok && !f.Neg {
				ci := InfoOf(&call.Call)
				if ci.Is("strings.HasPrefix") || ci.Is("strings.HasSuffix") {
					if lit, ok := ConstString(call.Call.Args[1]); ok && isASCII(lit) {
						arg := call.Call.Args[0]
						if inner, ok := arg.(*ssa.Call); ok && InfoOf(&inner.Call).Is("strings.ToLower") {
							arg = inner.Call.Args[0]
						}
						if SameVal(arg, x) {
							upd(int64(len(lit)), fmt.Sprintf("%s(…, %q) holds (ASCII literal: each of its bytes stems from ≥1 byte of the key)", ci.Name, lit))
						}
					}
				}
			}
			continue
		}
		X, Y, op := f.X, f.Y, f.Op
		// normalise so that the len/x side is X
		if _, ok := lenOf(Y); ok {
			X, Y = Y, X
			op = flipOp(op)
		} else if SameVal(Y, x) {
			X, Y = Y, X
			op = flipOp(op)
		}
		if lx, ok := lenOf(X); ok && SameVal(lx, x) {
			if n, ok := ConstInt(Y); ok {
				switch op {
				case token.GTR:
					upd(n+1, fmt.Sprintf("len > %d", n))
				case token.GEQ:
					upd(n, fmt.Sprintf("len >= %d", n))
				case token.EQL:
					upd(n, fmt.Sprintf("len == %d", n))
				case token.NEQ:
					if n == 0 {
						upd(1, "len != 0")
					}
				}
			}
		}
		if SameVal(X, x) && op == token.NEQ {
			if s, ok := ConstString(Y); ok && s == "" {
				upd(1, `!= ""`)
			}
		}
	}
	// producer facts
	if call, _, ok := CallResult(x); ok {
		ci := InfoOf(&call.Call)
		if ci.Is("strings.SplitN") || ci.Is("strings.Split") {
			// Split/SplitN return at least one element unless n == 0 (SplitN) or
			// sep == "" with empty s.
			okN := true
			if ci.Is("strings.SplitN") {
				n, isC := ConstInt(call.Call.Args[2])
				okN = isC && n != 0
			}
			sep, isS := ConstString(call.Call.Args[1])
			if okN && isS && sep != "" {
				upd(1, ci.Name+" with a non-empty separator returns >= 1 element")
			}
		}
	}
	return best, why
}

func isASCII(s string) bool {
	for i := 0; i < len(s); i++ {
		if s[i] >= 0x80 {
			return false
		}
	}
	return true
}

func flipOp(op token.Token) token.Token {
	switch op {
	case token.LSS:
		return token.GTR
	case token.GTR:
		return token.LSS
	case token.LEQ:
		return token.GEQ
	case token.GEQ:
		return token.LEQ
	}
	return op
}

// staticLen returns the length if x has an array type (or pointer to array).
func staticLen(t types.Type) (int64, bool) {
	if p, ok := t.Underlying().(*types.Pointer); ok {
		t = p.Elem()
	}
	if a, ok := t.Underlying().(*types.Array); ok {
		return a.Len(), true
	}
	return 0, false
}

// isLenMinus: v == len(x) - k.
func isLenMinus(v, x ssa.Value) (int64, bool) {
	b, ok := v.(*ssa.BinOp)
	if !ok || b.Op != token.SUB {
		return 0, false
	}
	lx, ok := lenOf(b.X)
	if !ok || !SameVal(lx, x) {
		return 0, false
	}
	k, ok := ConstInt(b.Y)
	return k, ok
}

// proveIndex tries to show 0 <= idx < len(x) (strict) or <= len(x) (slice bound).
func proveIndex(ls *LenState, x, idx ssa.Value, instr ssa.Instruction, strict bool) (bool, string) {
	minLen := func(x ssa.Value, instr ssa.Instruction) (int64, string) {
		n := ls.At(x, instr)
		return n, ls.describe(n)
	}
	if n, ok := staticLen(x.Type()); ok {
		if k, ok := ConstInt(idx); ok {
			if k >= 0 && (k < n || (!strict && k == n)) {
				return true, "constant index within array type"
			}
			return false, fmt.Sprintf("constant index %d outside array of length %d", k, n)
		}
	}
	// x freshly made with a known length expression equal to another len
	if k, ok := ConstInt(idx); ok {
		if k < 0 {
			return false, "negative constant index"
		}
		need := k + 1
		if !strict {
			need = k
		}
		if need == 0 {
			return true, "index 0 as a slice bound"
		}
		got, why := minLen(x, instr)
		if got >= need {
			return true, why
		}
		return false, fmt.Sprintf("needs len >= %d, dominating guards give len >= %d", need, got)
	}
	if k, ok := isLenMinus(idx, x); ok && k >= 0 {
		// len-k: need len >= k (so idx >= 0) and for strict idx<len: k >= 1
		if strict && k == 0 {
			return false, "index len(x) is out of range"
		}
		got, why := minLen(x, instr)
		if got >= k {
			return true, "index len-" + fmt.Sprint(k) + ", " + why
		}
		return false, fmt.Sprintf("index len-%d needs len >= %d, guards give >= %d", k, k, got)
	}
	if lx, ok := lenOf(idx); ok && !strict {
		// x[len(p):] : need len(x) >= len(p)
		if s, ok := ConstString(lx); ok {
			got, why := minLen(x, instr)
			if got >= int64(len(s)) {
				return true, why
			}
			return false, fmt.Sprintf("needs len >= %d, guards give >= %d", len(s), got)
		}
		if SameVal(lx, x) {
			return true, "bound is len of the same value"
		}
	}
	// loop index guarded by idx < len(x)
	if GuardedBy(instr, func(f Fact) bool {
		if f.Op != token.LSS || f.X != idx {
			return false
		}
		if lx, ok := lenOf(f.Y); ok {
			if SameVal(lx, x) {
				return true
			}
			// x made with len(lx'): make([]T, len(y)) and guard i < len(y)
			if mk, ok := x.(*ssa.MakeSlice); ok {
				if ly, ok := lenOf(mk.Len); ok && SameVal(ly, lx) {
					return true
				}
			}
			// x is a field of a copy whose field was assigned make(len(y))
		}
		return false
	}) && nonNegative(idx) {
		return true, "loop index guarded by i < len(x)"
	}
	return false, "no dominating guard recognised"
}

func nonNegative(v ssa.Value) bool {
	// rangeindex pattern: phi(-1, i+1)+1 ; or phi(0, i+1)
	if b, ok := v.(*ssa.BinOp); ok && b.Op == token.ADD {
		if k, ok := ConstInt(b.Y); ok && k >= 1 {
			if phi, ok := b.X.(*ssa.Phi); ok {
				for _, e := range phi.Edges {
					if n, ok := ConstInt(e); ok && n < -k {
						return false
					}
				}
				return true
			}
		}
	}
	if phi, ok := v.(*ssa.Phi); ok {
		for _, e := range phi.Edges {
			if n, ok := ConstInt(e); ok {
				if n < 0 {
					return false
				}
				continue
			}
			if b, ok := e.(*ssa.BinOp); ok && b.Op == token.ADD && b.X == phi {
				continue
			}
			return false
		}
		return true
	}
	if k, ok := ConstInt(v); ok {
		return k >= 0
	}
	return false
}

// BoundsOf enumerates the bounds obligations of fn (not nested literals).
func BoundsOf(fn *ssa.Function) []BoundOb {
	var out []BoundOb
	ls := LenFlow(fn)
	Instrs(fn, func(in ssa.Instruction) {
		switch x := in.(type) {
		case *ssa.Lookup:
			if _, isMap := x.X.Type().Underlying().(*types.Map); isMap {
				return
			}
			ok, why := proveIndex(ls, x.X, x.Index, x, true)
			out = append(out, BoundOb{x, descIdx(x.X, x.Index), ok, why})
		case *ssa.IndexAddr:
			ok, why := proveIndex(ls, x.X, x.Index, x, true)
			// varargs packing: new [n]T; &t[k] with constant in range is covered by staticLen
			out = append(out, BoundOb{x, descIdx(x.X, x.Index), ok, why})
		case *ssa.Index:
			ok, why := proveIndex(ls, x.X, x.Index, x, true)
			out = append(out, BoundOb{x, descIdx(x.X, x.Index), ok, why})
		case *ssa.Slice:
			if x.Low == nil && x.High == nil && x.Max == nil {
				return // x[:] never panics (for non-nil array pointers)
			}
			okAll, why := true, ""
			if x.High != nil {
				ok, w := proveIndex(ls, x.X, x.High, x, false)
				okAll, why = okAll && ok, w
			}
			if x.Low != nil && okAll {
				if x.High == nil {
					ok, w := proveIndex(ls, x.X, x.Low, x, false)
					okAll, why = ok, w
				} else if k, ok := ConstInt(x.Low); !ok || k != 0 {
					// low <= high
					lk, ok1 := ConstInt(x.Low)
					hk, ok2 := ConstInt(x.High)
					if !(ok1 && ok2 && lk <= hk) {
						okAll, why = false, "cannot relate low and high bounds"
					}
				}
			}
			d := "slice " + valName(x.X) + "[" + optName(x.Low) + ":" + optName(x.High) + "]"
			out = append(out, BoundOb{x, d, okAll, why})
		}
	})
	return out
}

func descIdx(x, idx ssa.Value) string { return valName(x) + "[" + valName(idx) + "]" }

func optName(v ssa.Value) string {
	if v == nil {
		return ""
	}
	return valName(v)
}

// valName gives a short symbolic rendering of a value for construct keys.
func valName(v ssa.Value) string {
	switch x := v.(type) {
	case *ssa.Parameter:
		return x.Name()
	case *ssa.Const:
		if x.Value == nil {
			return "nil"
		}
		return x.Value.ExactString()
	case *ssa.Phi:
		if x.Comment != "" {
			return x.Comment
		}
	case *ssa.UnOp:
		if x.Op == token.MUL {
			if _, f, ok := FieldOf(x); ok {
				return "." + f
			}
			if n := CellName(x.X); n != "" {
				return n
			}
			if g, ok := x.X.(*ssa.Global); ok {
				return g.Name()
			}
		}
	case *ssa.FreeVar:
		return x.Name()
	case *ssa.Alloc:
		return x.Comment
	case *ssa.BinOp:
		return valName(x.X) + x.Op.String() + valName(x.Y)
	case *ssa.Call:
		ci := InfoOf(&x.Call)
		if ci.Builtin && len(x.Call.Args) == 1 {
			return ci.Name + "(" + valName(x.Call.Args[0]) + ")"
		}
		return ci.Name + "(…)"
	case *ssa.Extract:
		return valName(x.Tuple) + "#" + fmt.Sprint(x.Index)
	case *ssa.Slice:
		return valName(x.X) + "[:]"
	}
	return v.Name()
}

// ValName exports valName.
func ValName(v ssa.Value) string { return valName(v) }
