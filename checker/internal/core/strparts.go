package core

import (
	"go/token"
	"go/types"
	"strings"

	"golang.org/x/tools/go/ssa"
)

// StrPart is one piece of a string that is assembled from constants and values.
type StrPart struct {
	Const   string
	IsConst bool
	Val     ssa.Value // the operand (interface wrapping stripped)
	Verb    byte      // 's' (a string / %s / %v) or 'd' (an integer rendered in decimal)
}

// StringParts decomposes a string-valued expression into its pieces, whatever
// idiom assembles it: fmt.Sprintf with a constant format of %s/%d/%v verbs,
// concatenation with +, strconv.Itoa / FormatInt(x, 10) / FormatUint(x, 10),
// fmt.Sprint of one operand. ok is false when the expression is none of these
// (the value itself is then one 's' part).
func StringParts(v ssa.Value) ([]StrPart, bool) {
	parts, ok := stringParts(v, 0)
	// merge adjacent constants
	var out []StrPart
	for _, p := range parts {
		if p.IsConst && len(out) > 0 && out[len(out)-1].IsConst {
			out[len(out)-1].Const += p.Const
			continue
		}
		if p.IsConst && p.Const == "" {
			continue
		}
		out = append(out, p)
	}
	return out, ok
}

func stringParts(v ssa.Value, depth int) ([]StrPart, bool) {
	if depth > 8 {
		return []StrPart{{Val: v, Verb: 's'}}, false
	}
	if s, ok := ConstString(v); ok {
		return []StrPart{{Const: s, IsConst: true}}, true
	}
	switch x := v.(type) {
	case *ssa.BinOp:
		if x.Op == token.ADD {
			if bt, isB := x.Type().Underlying().(*types.Basic); isB && bt.Info()&types.IsString != 0 {
				l, ok1 := stringParts(x.X, depth+1)
				r, ok2 := stringParts(x.Y, depth+1)
				return append(l, r...), ok1 && ok2
			}
		}
	case *ssa.ChangeType:
		return stringParts(x.X, depth+1)
	case *ssa.Call:
		ci := InfoOf(&x.Call)
		switch {
		case ci.Is("fmt.Sprintf") && len(x.Call.Args) == 2:
			format, okF := ConstString(x.Call.Args[0])
			args, unp := VariadicArgs(x.Call.Args[1])
			if !okF || !unp {
				break
			}
			var out []StrPart
			ai := 0
			lit := ""
			for i := 0; i < len(format); i++ {
				ch := format[i]
				if ch != '%' {
					lit += string(ch)
					continue
				}
				if i+1 >= len(format) {
					return []StrPart{{Val: v, Verb: 's'}}, false
				}
				i++
				verb := format[i]
				if verb == '%' {
					lit += "%"
					continue
				}
				if (verb != 's' && verb != 'd' && verb != 'v') || ai >= len(args) {
					return []StrPart{{Val: v, Verb: 's'}}, false
				}
				if lit != "" {
					out = append(out, StrPart{Const: lit, IsConst: true})
					lit = ""
				}
				a := Strip(args[ai])
				ai++
				vb := byte('s')
				if verb == 'd' {
					vb = 'd'
				}
				if verb == 'v' {
					if bt, isB := a.Type().Underlying().(*types.Basic); isB && bt.Info()&types.IsInteger != 0 {
						vb = 'd'
					}
				}
				if vb == 's' {
					// a string operand may itself be assembled
					if sub, okS := stringParts(a, depth+1); okS && len(sub) > 0 && !(len(sub) == 1 && !sub[0].IsConst && sub[0].Val == a) {
						out = append(out, sub...)
						continue
					}
				}
				out = append(out, StrPart{Val: a, Verb: vb})
			}
			if lit != "" {
				out = append(out, StrPart{Const: lit, IsConst: true})
			}
			if ai != len(args) {
				return []StrPart{{Val: v, Verb: 's'}}, false
			}
			return out, true
		case ci.Is("strconv.Itoa") && len(x.Call.Args) == 1:
			return []StrPart{{Val: stripIntConv(x.Call.Args[0]), Verb: 'd'}}, true
		case (ci.Is("strconv.FormatInt") || ci.Is("strconv.FormatUint")) && len(x.Call.Args) == 2:
			if base, ok := ConstInt(x.Call.Args[1]); ok && base == 10 {
				return []StrPart{{Val: stripIntConv(x.Call.Args[0]), Verb: 'd'}}, true
			}
		}
	}
	return []StrPart{{Val: v, Verb: 's'}}, true
}

// stripIntConv removes widening integer conversions (int64(x), int(x)).
func stripIntConv(v ssa.Value) ssa.Value {
	for i := 0; i < 4; i++ {
		cv, ok := v.(*ssa.Convert)
		if !ok {
			return v
		}
		fb, ok1 := cv.X.Type().Underlying().(*types.Basic)
		tb, ok2 := cv.Type().Underlying().(*types.Basic)
		if !ok1 || !ok2 || fb.Info()&types.IsInteger == 0 || tb.Info()&types.IsInteger == 0 {
			return v
		}
		v = cv.X
	}
	return v
}

// FormatOf renders StringParts as a canonical format string ("%d:%s",
// "/%s/%s", …) and the operand list. ok is false when v is not an assembled
// string (a single opaque value gives "%s").
func FormatOf(v ssa.Value) (format string, args []ssa.Value, ok bool) {
	parts, ok := StringParts(v)
	var sb strings.Builder
	for _, p := range parts {
		if p.IsConst {
			sb.WriteString(strings.ReplaceAll(p.Const, "%", "%%"))
			continue
		}
		sb.WriteByte('%')
		sb.WriteByte(p.Verb)
		args = append(args, p.Val)
	}
	return sb.String(), args, ok
}
