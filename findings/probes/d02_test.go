package probes

import (
	"context"
	"io"
	"net/http"
	"runtime"
	"testing"
	"time"

	"github.com/fullstorydev/grpchan/grpchantesting"
)

// D2: clientStream.doHttpCall allocates make([]byte, sz) for any non-negative
// 32-bit size preface sent by the server, without any limit. A 4-byte reply
// body of 7f ff ff ff makes the client allocate ~2 GiB.
func TestD02_ClientStreamFrameSizeUnbounded(t *testing.T) {
	ch := fakeChannel(func(r *http.Request) (*http.Response, error) {
		return streamReply(r, []byte{0x7f, 0xff, 0xff, 0xff}), nil
	})
	cli := grpchantesting.NewTestServiceClient(ch)

	var before, after runtime.MemStats
	runtime.GC()
	runtime.ReadMemStats(&before)

	ctx, cancel := context.WithTimeout(context.Background(), 30*time.Second)
	defer cancel()
	str, err := cli.ServerStream(ctx, &grpchantesting.Message{})
	if err != nil {
		t.Fatalf("ServerStream: %v", err)
	}
	_, err = str.Recv()

	runtime.ReadMemStats(&after)
	delta := after.TotalAlloc - before.TotalAlloc
	t.Logf("Recv error: %v; TotalAlloc delta: %d bytes (%.1f MiB)", err, delta, float64(delta)/(1<<20))

	if err == nil {
		t.Errorf("Recv succeeded on a truncated 2 GiB frame")
	}
	if err == io.EOF {
		t.Errorf("Recv returned io.EOF (success) on a truncated 2 GiB frame")
	}
	const limit = 512 << 20
	if delta > limit {
		t.Errorf("client allocated %d bytes (%.1f MiB) because of a 4-byte reply; want < %d MiB",
			delta, float64(delta)/(1<<20), limit>>20)
	}
}
