package probes

import (
	"context"
	"fmt"
	"testing"

	"google.golang.org/grpc"
	"google.golang.org/grpc/status"

	"github.com/fullstorydev/grpchan/grpchantesting"
)

// D8: inprocgrpc.(*Channel).Invoke / NewStream index method[0] and strs[1]
// without length checks: malformed method names panic (index out of range)
// instead of returning an error.
func TestD08_MalformedMethodNameDoesNotPanic(t *testing.T) {
	ch := newInproc(&grpchantesting.TestServer{})
	methods := []string{"", "foo", "/foo", "/"}

	call := func(fn func() error) (err error, panicked interface{}) {
		defer func() { panicked = recover() }()
		return fn(), nil
	}

	for _, m := range methods {
		m := m
		t.Run(fmt.Sprintf("Invoke(%q)", m), func(t *testing.T) {
			err, p := call(func() error {
				return ch.Invoke(context.Background(), m, &grpchantesting.Message{}, &grpchantesting.Message{})
			})
			if p != nil {
				t.Fatalf("Invoke(%q) panicked: %v", m, p)
			}
			if err == nil {
				t.Fatalf("Invoke(%q) returned nil error", m)
			}
			if _, ok := status.FromError(err); !ok {
				t.Errorf("Invoke(%q) returned a non-status error: %v", m, err)
			}
		})
		t.Run(fmt.Sprintf("NewStream(%q)", m), func(t *testing.T) {
			err, p := call(func() error {
				_, err := ch.NewStream(context.Background(), &grpc.StreamDesc{ServerStreams: true, ClientStreams: true}, m)
				return err
			})
			if p != nil {
				t.Fatalf("NewStream(%q) panicked: %v", m, p)
			}
			if err == nil {
				t.Fatalf("NewStream(%q) returned nil error", m)
			}
			if _, ok := status.FromError(err); !ok {
				t.Errorf("NewStream(%q) returned a non-status error: %v", m, err)
			}
		})
	}
}
