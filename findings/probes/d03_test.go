package probes

import (
	"context"
	"io"
	"net/http"
	"testing"
	"time"

	"github.com/fullstorydev/grpchan/grpchantesting"
)

// D3: a reply body that ends cleanly at a frame boundary WITHOUT the mandatory
// trailer frame makes readSizePreface return io.EOF, which becomes the stream's
// terminal error; io.EOF means "RPC finished OK" to a stream reader. A
// truncated reply is thus reported as success.
func TestD03_TruncatedReplyWithoutTrailerIsNotSuccess(t *testing.T) {
	t.Run("one-frame-then-eof", func(t *testing.T) {
		body := dataFrame(t, &grpchantesting.Message{Payload: []byte("hello"), Count: 1})
		ch := fakeChannel(func(r *http.Request) (*http.Response, error) {
			return streamReply(r, body), nil
		})
		ctx, cancel := context.WithTimeout(context.Background(), 10*time.Second)
		defer cancel()
		str, err := grpchantesting.NewTestServiceClient(ch).ServerStream(ctx, &grpchantesting.Message{})
		if err != nil {
			t.Fatalf("ServerStream: %v", err)
		}
		m, err := str.Recv()
		if err != nil {
			t.Fatalf("first Recv: %v", err)
		}
		if string(m.Payload) != "hello" {
			t.Fatalf("first Recv: wrong payload %q", m.Payload)
		}
		_, err = str.Recv()
		t.Logf("second Recv error: %v", err)
		if err == nil {
			t.Fatalf("second Recv returned a message")
		}
		if err == io.EOF {
			t.Errorf("second Recv returned io.EOF (success) although the reply has no trailer frame")
		}
	})
	t.Run("empty-body", func(t *testing.T) {
		ch := fakeChannel(func(r *http.Request) (*http.Response, error) {
			return streamReply(r, nil), nil
		})
		ctx, cancel := context.WithTimeout(context.Background(), 10*time.Second)
		defer cancel()
		str, err := grpchantesting.NewTestServiceClient(ch).ServerStream(ctx, &grpchantesting.Message{})
		if err != nil {
			t.Fatalf("ServerStream: %v", err)
		}
		_, err = str.Recv()
		t.Logf("Recv error: %v", err)
		if err == nil {
			t.Fatalf("Recv returned a message")
		}
		if err == io.EOF {
			t.Errorf("Recv returned io.EOF (success) although the reply body is empty (no trailer frame)")
		}
	})
}
