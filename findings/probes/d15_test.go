package probes

import (
	"context"
	"io"
	"reflect"
	"testing"
	"time"

	"google.golang.org/grpc/metadata"

	"github.com/fullstorydev/grpchan/grpchantesting"
)

// D15: httpgrpc serverStream.SetTrailer keeps the handler's metadata.MD by
// reference (s.tr = append(s.tr, md)) and only joins the kept maps when the
// handler returns. A handler that reuses one MD object for two SetTrailer calls
// (or edits it after the call) has the value it set first replaced: the client
// sees k=[2 2] instead of k=[1 2]. The three other accumulators of the library
// (in-process stream, unary transport stream headers and trailers) and gRPC
// itself copy at the call.
func TestD15_StreamTrailerSetTwiceFromOneMD(t *testing.T) {
	svc := &funcSvc{
		serverStream: func(_ *grpchantesting.Message, str grpchantesting.TestService_ServerStreamServer) error {
			md := metadata.Pairs("k", "1")
			str.SetTrailer(md)
			md.Set("k", "2")
			str.SetTrailer(md)
			return nil
		},
	}
	run := func(t *testing.T, cli grpchantesting.TestServiceClient) []string {
		ctx, cancel := context.WithTimeout(context.Background(), 10*time.Second)
		defer cancel()
		str, err := cli.ServerStream(ctx, &grpchantesting.Message{})
		if err != nil {
			t.Fatalf("ServerStream: %v", err)
		}
		for {
			if _, err := str.Recv(); err == io.EOF {
				break
			} else if err != nil {
				t.Fatalf("Recv: %v", err)
			}
		}
		return str.Trailer().Get("k")
	}
	want := []string{"1", "2"}
	t.Run("inproc-reference", func(t *testing.T) {
		if got := run(t, grpchantesting.NewTestServiceClient(newInproc(svc))); !reflect.DeepEqual(got, want) {
			t.Errorf("inproc: trailer k = %v, want %v", got, want)
		}
	})
	t.Run("http", func(t *testing.T) {
		ch, _ := startHTTP(t, svc, false)
		if got := run(t, grpchantesting.NewTestServiceClient(ch)); !reflect.DeepEqual(got, want) {
			t.Errorf("http: trailer k = %v, want %v (the value set first was replaced: the MD is kept by reference)", got, want)
		}
	})
}
