package probes

import (
	"context"
	"io"
	"runtime"
	"sync"
	"sync/atomic"
	"testing"
	"time"

	"google.golang.org/grpc/codes"
	"google.golang.org/grpc/status"

	"github.com/fullstorydev/grpchan/grpchantesting"
)

// D4: inprocgrpc.(*Channel).Invoke: when the context is done, the server
// goroutine's frame writes may be abandoned (writeMessage selects on
// ctx.Done()), and the client's receive loop then may observe the closed
// channel before it observes ctx.Done(). The closed-channel arm returns a bare
// io.EOF (no response seen) without re-checking ctx.Err(). So a unary call
// sporadically fails with io.EOF, which is not a gRPC status error.
//
// Schedule: pre-cancelled context; handler fails immediately with a status
// error; many calls from GOMAXPROCS goroutines.
func TestD04_UnaryNeverReturnsBareEOF(t *testing.T) {
	handlerErr := status.Error(codes.FailedPrecondition, "handler failed")
	ch := newInproc(&funcSvc{
		unary: func(ctx context.Context, m *grpchantesting.Message) (*grpchantesting.Message, error) {
			return nil, handlerErr
		},
	})
	cli := grpchantesting.NewTestServiceClient(ch)

	const maxCalls = 400000
	deadline := time.Now().Add(45 * time.Second)
	workers := runtime.GOMAXPROCS(0)

	var calls, bareEOF, nilErr, nonStatus int64
	var firstBad atomic.Value
	var stop int32
	var wg sync.WaitGroup
	for w := 0; w < workers; w++ {
		wg.Add(1)
		go func() {
			defer wg.Done()
			ctx, cancel := context.WithCancel(context.Background())
			cancel() // pre-cancelled
			req := &grpchantesting.Message{}
			for atomic.LoadInt32(&stop) == 0 {
				n := atomic.AddInt64(&calls, 1)
				if n > maxCalls || (n%1024 == 0 && time.Now().After(deadline)) {
					return
				}
				_, err := cli.Unary(ctx, req)
				switch {
				case err == nil:
					atomic.AddInt64(&nilErr, 1)
					firstBad.CompareAndSwap(nil, "nil error")
				case err == io.EOF:
					atomic.AddInt64(&bareEOF, 1)
					firstBad.CompareAndSwap(nil, "bare io.EOF")
				default:
					if _, ok := status.FromError(err); !ok {
						atomic.AddInt64(&nonStatus, 1)
						firstBad.CompareAndSwap(nil, "non-status error: "+err.Error())
					}
				}
				// keep going for a little while so the counts are informative,
				// but stop soon after the first hit
				if atomic.LoadInt64(&bareEOF)+atomic.LoadInt64(&nilErr) >= 5 {
					atomic.StoreInt32(&stop, 1)
				}
			}
		}()
	}
	wg.Wait()
	n := atomic.LoadInt64(&calls)
	if n > maxCalls {
		n = maxCalls
	}
	t.Logf("calls=%d bareEOF=%d nilErr=%d otherNonStatus=%d first=%v", n, bareEOF, nilErr, nonStatus, firstBad.Load())
	if bareEOF > 0 {
		t.Errorf("%d of %d unary calls with a cancelled context returned a bare io.EOF instead of a status error", bareEOF, n)
	}
	if nilErr > 0 {
		t.Errorf("%d of %d unary calls returned nil although the handler returned an error", nilErr, n)
	}
	if nonStatus > 0 {
		t.Errorf("%d of %d unary calls returned a non-status error (first: %v)", nonStatus, n, firstBad.Load())
	}
}
