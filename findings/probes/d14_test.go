package probes

import (
	"bufio"
	"context"
	"io"
	"net"
	"net/http"
	"net/url"
	"strings"
	"testing"
	"time"

	"google.golang.org/grpc/status"

	"github.com/fullstorydev/grpchan/grpchantesting"
	"github.com/fullstorydev/grpchan/httpgrpc"
)

// D14: httpgrpc clientStream.doHttpCall publishes whatever error
// Transport.RoundTrip returned as the stream's terminal error (only context
// errors are translated). If that error is io.EOF (which net/http's Transport
// can return when the peer closes the connection without replying), Recv
// returns io.EOF, i.e. "stream finished successfully with zero messages".
func TestD14_RoundTripEOFIsNotSuccess(t *testing.T) {
	ch := fakeChannel(func(r *http.Request) (*http.Response, error) {
		return nil, io.EOF
	})
	ctx, cancel := context.WithTimeout(context.Background(), 10*time.Second)
	defer cancel()
	str, err := grpchantesting.NewTestServiceClient(ch).ServerStream(ctx, &grpchantesting.Message{})
	if err != nil {
		// failing at open time is fine as long as it is not io.EOF
		t.Logf("ServerStream error: %v", err)
		if err == io.EOF {
			t.Fatalf("ServerStream returned io.EOF")
		}
		return
	}
	_, err = str.Recv()
	_, isStatus := status.FromError(err)
	t.Logf("Recv error: %v (%T) isStatus=%v", err, err, isStatus)
	if err == nil {
		t.Fatalf("Recv returned a message although RoundTrip failed")
	}
	if err == io.EOF {
		t.Errorf("Recv returned io.EOF (success, zero messages) although RoundTrip failed with io.EOF")
	}
}

// Informational companion of D14: what does the real http.Transport return
// when the server accepts, reads the request head and closes the connection
// without replying? This test only fails if the outcome is reported as success
// (io.EOF from Recv).
func TestD14_RealTransportPeerClosesWithoutReply(t *testing.T) {
	l, err := net.Listen("tcp", "127.0.0.1:0")
	if err != nil {
		t.Skipf("cannot listen: %v", err)
	}
	defer l.Close()
	go func() {
		for {
			c, err := l.Accept()
			if err != nil {
				return
			}
			go func(c net.Conn) {
				defer c.Close()
				br := bufio.NewReader(c)
				for { // read request head
					line, err := br.ReadString('\n')
					if err != nil || strings.TrimSpace(line) == "" {
						break
					}
				}
			}(c)
		}
	}()
	u, _ := url.Parse("http://" + l.Addr().String())

	for _, keepAlive := range []bool{false, true} {
		tr := &http.Transport{DisableKeepAlives: !keepAlive}
		ch := &httpgrpc.Channel{Transport: tr, BaseURL: u}
		cli := grpchantesting.NewTestServiceClient(ch)
		for i := 0; i < 3; i++ {
			ctx, cancel := context.WithTimeout(context.Background(), 10*time.Second)
			str, err := cli.ServerStream(ctx, &grpchantesting.Message{})
			if err != nil {
				// The stub's SendMsg failed. Since the D27 repair a send that is cut short by the
				// completion of the call reports io.EOF, as grpc-go's SendMsg does for every failure
				// it did not generate itself ("the status of the stream may be discovered using
				// RecvMsg"); the generated stub hands that error back. That is an error return of
				// ServerStream(), not a stream that ended successfully, so it is only logged.
				t.Logf("keepalive=%v #%d: ServerStream error: %v (%T)", keepAlive, i, err, err)
				cancel()
				continue
			}
			_, err = str.Recv()
			t.Logf("keepalive=%v #%d: Recv error: %v (%T)", keepAlive, i, err, err)
			if err == io.EOF {
				t.Errorf("keepalive=%v #%d: Recv returned io.EOF (success) although the server closed the connection without replying", keepAlive, i)
			}
			// unary sibling, for the record only: a raw io.EOF is not "success" for
			// a unary call, merely a non-status error, so it is logged, not failed
			_, uerr := cli.Unary(ctx, &grpchantesting.Message{})
			t.Logf("keepalive=%v #%d: Unary error: %v (%T)", keepAlive, i, uerr, uerr)
			if uerr == nil {
				t.Errorf("keepalive=%v #%d: Unary succeeded", keepAlive, i)
			}
			cancel()
		}
		tr.CloseIdleConnections()
	}
}
