package probes

import (
	"context"
	"net/http"
	"runtime"
	"strings"
	"testing"
	"time"

	"google.golang.org/grpc/codes"
	"google.golang.org/grpc/status"

	"github.com/fullstorydev/grpchan/grpchantesting"
)

func goroutinesWith(substr string) int {
	buf := make([]byte, 1<<20)
	n := runtime.Stack(buf, true)
	c := 0
	for _, g := range strings.Split(string(buf[:n]), "\n\n") {
		if strings.Contains(g, substr) {
			c++
		}
	}
	return c
}

// D24: httpgrpc clientStream.RecvMsg fails the call with "server sent invalid
// message" when a frame cannot be decoded, but (unlike its neighbour, the
// ">1 response" branch) does not cancel the call: the reply reader goroutine
// stays parked trying to hand the NEXT frame to a caller that, having received
// a terminal error, will never ask for it. It goes away only when the caller's
// context ends or the garbage collector runs the stream's finalizer.
func TestD24_UndecodableMessageLeavesReplyReaderParked(t *testing.T) {
	bad := []byte{0, 0, 0, 3, 0xff, 0xff, 0xff}
	body := append(append(append([]byte{}, bad...), bad...), bad...)
	ch := fakeChannel(func(r *http.Request) (*http.Response, error) {
		return streamReply(r, body), nil
	})
	ctx, cancel := context.WithTimeout(context.Background(), 30*time.Second)
	defer cancel()
	before := goroutinesWith("doHttpCall")
	str, err := grpchantesting.NewTestServiceClient(ch).ServerStream(ctx, &grpchantesting.Message{})
	if err != nil {
		t.Fatalf("open: %v", err)
	}
	_, err = str.Recv()
	if status.Code(err) != codes.Internal {
		t.Fatalf("expected Internal for an undecodable message, got %v", err)
	}
	// the call is over for the caller (a non-nil error from Recv is final); the stream is still referenced
	// (no finalizer can run) and the context is still live
	deadline := time.Now().Add(2 * time.Second)
	for time.Now().Before(deadline) && goroutinesWith("doHttpCall") > before {
		time.Sleep(20 * time.Millisecond)
	}
	if n := goroutinesWith("doHttpCall") - before; n > 0 {
		t.Errorf("%d reply reader goroutine(s) still parked 2s after Recv reported the terminal error", n)
	}
	runtime.KeepAlive(str)
}

// D25: inprocgrpc client stream: when the handler of a single-response method
// sends a second message, CloseAndRecv fails with Internal (">1 response") but
// nothing cancels the call: the handler's goroutine stays blocked in SendMsg
// (nobody reads the one-slot response channel any more) until the caller's
// context ends or the finalizer runs. The HTTP client cancels in the same
// situation.
func TestD25_InprocTooManyResponsesLeavesHandlerBlocked(t *testing.T) {
	returned := make(chan struct{})
	svc := &funcSvc{
		clientStream: func(str grpchantesting.TestService_ClientStreamServer) error {
			defer close(returned)
			for {
				if _, err := str.Recv(); err != nil {
					break
				}
			}
			for i := 0; i < 4; i++ {
				if err := str.SendMsg(&grpchantesting.Message{Count: int32(i)}); err != nil {
					return err
				}
			}
			return nil
		},
	}
	ch := newInproc(svc)
	ctx, cancel := context.WithTimeout(context.Background(), 30*time.Second)
	defer cancel()
	str, err := grpchantesting.NewTestServiceClient(ch).ClientStream(ctx)
	if err != nil {
		t.Fatalf("open: %v", err)
	}
	_, err = str.CloseAndRecv()
	if status.Code(err) != codes.Internal {
		t.Fatalf("expected Internal for >1 response, got %v", err)
	}
	select {
	case <-returned:
	case <-time.After(2 * time.Second):
		t.Errorf("the handler is still blocked in SendMsg 2s after the client got its final error (context live, stream referenced)")
	}
	runtime.KeepAlive(str)
}
