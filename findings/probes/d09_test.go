package probes

import (
	"context"
	"os"
	"sync"
	"sync/atomic"
	"testing"
	"time"

	"github.com/fullstorydev/grpchan/grpchantesting"
	"github.com/fullstorydev/grpchan/inprocgrpc"
)

// spyCloner delegates to ProtoCloner but records every Copy whose source is a
// tracked request pointer after the corresponding Invoke has returned.
type spyCloner struct {
	inprocgrpc.ProtoCloner
	tracked    sync.Map // request pointer -> *int32 ("Invoke has returned" flag)
	violations int64
	reads      int64
}

func (c *spyCloner) Copy(out, in interface{}) error {
	if f, ok := c.tracked.Load(in); ok {
		atomic.AddInt64(&c.reads, 1)
		if atomic.LoadInt32(f.(*int32)) != 0 {
			atomic.AddInt64(&c.violations, 1)
		}
	}
	return c.ProtoCloner.Copy(out, in)
}

// D9: inprocgrpc.(*Channel).Invoke captures the caller's req in the decode
// closure that the server goroutine runs. If Invoke returns early (context
// done), the server goroutine may still read req afterwards, racing with a
// caller that re-uses/mutates the request (which gRPC allows once Invoke has
// returned).
//
// Schedule: pre-cancelled context, so Invoke returns immediately while the
// server goroutine is still about to decode the request.
//
// (-race variant: same loop, but mutate req.Payload right after Invoke returns;
// `go test -race` then reports a data race between the caller's write and
// proto.Merge in the server goroutine.)
func TestD09_RequestNotReadAfterInvokeReturns(t *testing.T) {
	spy := &spyCloner{}
	ch := (&inprocgrpc.Channel{}).WithCloner(spy)
	var handled int64
	grpchantesting.RegisterTestServiceServer(ch, &funcSvc{
		unary: func(ctx context.Context, m *grpchantesting.Message) (*grpchantesting.Message, error) {
			atomic.AddInt64(&handled, 1)
			return m, nil
		},
	})
	cli := grpchantesting.NewTestServiceClient(ch)

	ctx, cancel := context.WithCancel(context.Background())
	cancel()

	const iterations = 2000
	for i := 0; i < iterations; i++ {
		req := &grpchantesting.Message{Payload: []byte("payload"), Count: int32(i)}
		var returned int32
		spy.tracked.Store(req, &returned)
		_, _ = cli.Unary(ctx, req)
		atomic.StoreInt32(&returned, 1)
		// From here on the caller owns req again; the library must not touch it.
		if i%50 == 0 {
			time.Sleep(time.Millisecond) // let straggling server goroutines run
		}
	}
	time.Sleep(200 * time.Millisecond)

	v, r := atomic.LoadInt64(&spy.violations), atomic.LoadInt64(&spy.reads)
	t.Logf("iterations=%d handler-invocations=%d reads-of-caller-req-via-Copy=%d of-which-after-Invoke-returned=%d",
		iterations, atomic.LoadInt64(&handled), r, v)
	if v > 0 {
		t.Errorf("caller's request message was read by the library %d times (of %d calls) AFTER Invoke had returned", v, iterations)
	}
}

// Race-detector variant of D9 (opt-in, because it deliberately performs the
// write that gRPC permits after Invoke has returned):
//
//	PROBES_RACE=1 go test -race -count=1 -run TestD09_RaceVariant ./...
//
// On the original code the race detector reports a data race between the
// write below and the server goroutine's read of req (cloner.Copy ->
// proto.Merge), and the test fails ("race detected during execution of test").
func TestD09_RaceVariant(t *testing.T) {
	if os.Getenv("PROBES_RACE") == "" {
		t.Skip("set PROBES_RACE=1 and run with -race")
	}
	ch := newInproc(&funcSvc{
		unary: func(ctx context.Context, m *grpchantesting.Message) (*grpchantesting.Message, error) {
			return m, nil
		},
	})
	cli := grpchantesting.NewTestServiceClient(ch)
	ctx, cancel := context.WithCancel(context.Background())
	cancel()
	for i := 0; i < 200; i++ {
		req := &grpchantesting.Message{Count: int32(i)}
		_, _ = cli.Unary(ctx, req)
		req.Count = -1 // caller re-uses its request after Invoke returned
		time.Sleep(100 * time.Microsecond)
	}
	time.Sleep(100 * time.Millisecond)
}
