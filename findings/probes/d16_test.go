package probes

import (
	"context"
	"io"
	"testing"
	"time"

	"google.golang.org/grpc/codes"
	"google.golang.org/grpc/status"

	"github.com/fullstorydev/grpchan/grpchantesting"
)

// D16: a streaming handler that returns io.EOF as its error (the classic
// `if err != nil { return err }` after stream.Recv()) fails the RPC: through
// the standard transport and over HTTP the client sees status Unknown "EOF".
// The in-process transport carries the raw error value in the error frame and
// the client stream returns it as is - and a bare io.EOF from RecvMsg IS the
// end-of-stream (success) sentinel. The failed call is reported as success.
func TestD16_HandlerReturnsEOF(t *testing.T) {
	svc := &funcSvc{
		serverStream: func(_ *grpchantesting.Message, str grpchantesting.TestService_ServerStreamServer) error {
			if err := str.Send(&grpchantesting.Message{Count: 1}); err != nil {
				return err
			}
			return io.EOF
		},
		clientStream: func(str grpchantesting.TestService_ClientStreamServer) error {
			for {
				if _, err := str.Recv(); err != nil {
					return err // io.EOF once the client half-closed: the classic mistake
				}
			}
		},
	}
	type result struct{ serverStream, clientStream error }
	run := func(t *testing.T, cli grpchantesting.TestServiceClient) result {
		ctx, cancel := context.WithTimeout(context.Background(), 10*time.Second)
		defer cancel()
		var res result
		ss, err := cli.ServerStream(ctx, &grpchantesting.Message{})
		if err != nil {
			t.Fatalf("ServerStream: %v", err)
		}
		for {
			if _, err := ss.Recv(); err != nil {
				res.serverStream = err
				break
			}
		}
		cs, err := cli.ClientStream(ctx)
		if err != nil {
			t.Fatalf("ClientStream: %v", err)
		}
		_ = cs.Send(&grpchantesting.Message{})
		_, res.clientStream = cs.CloseAndRecv()
		return res
	}
	check := func(t *testing.T, name string, res result) {
		if res.serverStream == io.EOF {
			t.Errorf("%s: server-stream Recv returned io.EOF (success) although the handler failed with io.EOF", name)
		} else if status.Code(res.serverStream) != codes.Unknown {
			t.Errorf("%s: server-stream: code %v (%v), want Unknown", name, status.Code(res.serverStream), res.serverStream)
		}
		if res.clientStream == nil || res.clientStream == io.EOF {
			t.Errorf("%s: client-stream CloseAndRecv returned %v although the handler failed with io.EOF", name, res.clientStream)
		} else if status.Code(res.clientStream) != codes.Unknown {
			t.Errorf("%s: client-stream: code %v (%v), want Unknown", name, status.Code(res.clientStream), res.clientStream)
		}
	}
	t.Run("http-reference", func(t *testing.T) {
		ch, _ := startHTTP(t, svc, false)
		check(t, "http", run(t, grpchantesting.NewTestServiceClient(ch)))
	})
	t.Run("inproc", func(t *testing.T) {
		check(t, "inproc", run(t, grpchantesting.NewTestServiceClient(newInproc(svc))))
	})
}
