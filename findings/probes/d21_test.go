package probes

import (
	"context"
	"testing"
	"time"

	"google.golang.org/grpc/codes"
	"google.golang.org/grpc/status"

	"github.com/fullstorydev/grpchan/grpchantesting"
)

// D21 (known finding, not repaired): over HTTP a UNARY handler's status message
// travels in the X-GRPC-Status header as "<code>:<message>", verbatim. net/http
// replaces CR and LF in header values by blanks and trims the value, so a
// message with a line break or trailing blank reaches the caller altered
// (the standard transport percent-encodes grpc-message; the streaming path of
// this package carries the message in the trailer frame and keeps it).
func TestD21_UnaryStatusMessageWithLineBreak(t *testing.T) {
	for _, msg := range []string{"first line\nsecond line", "a\r\nb", "trailing blank "} {
		msg := msg
		svc := &funcSvc{unary: func(ctx context.Context, m *grpchantesting.Message) (*grpchantesting.Message, error) {
			return nil, status.Error(codes.NotFound, msg)
		}}
		ch, srv := startHTTP(t, svc, false)
		ctx, cancel := context.WithTimeout(context.Background(), 10*time.Second)
		_, err := grpchantesting.NewTestServiceClient(ch).Unary(ctx, &grpchantesting.Message{})
		cancel()
		srv.Close()
		st := status.Convert(err)
		if st.Code() != codes.NotFound {
			t.Errorf("message %q: code %v, want NotFound", msg, st.Code())
		}
		if st.Message() != msg {
			t.Errorf("status message altered: handler returned %q, caller sees %q", msg, st.Message())
		}
	}
}

// D23: over HTTP a STREAMING handler's status whose message is not valid UTF-8
// cannot be put into the trailer frame (HttpTrailer.message is a proto3
// string): marshalling fails, nothing is written and the caller sees
// "unexpected EOF" (code Unknown) instead of the handler's code. The standard
// transport delivers the code with the message sanitised (U+FFFD).
func TestD23_StreamStatusMessageInvalidUTF8(t *testing.T) {
	svc := &funcSvc{serverStream: func(m *grpchantesting.Message, str grpchantesting.TestService_ServerStreamServer) error {
		return status.Error(codes.NotFound, "bad\xffutf")
	}}
	ch, srv := startHTTP(t, svc, false)
	defer srv.Close()
	ctx, cancel := context.WithTimeout(context.Background(), 10*time.Second)
	defer cancel()
	str, err := grpchantesting.NewTestServiceClient(ch).ServerStream(ctx, &grpchantesting.Message{})
	if err != nil {
		t.Fatalf("open: %v", err)
	}
	_, err = str.Recv()
	st := status.Convert(err)
	if st.Code() != codes.NotFound {
		t.Errorf("caller sees %v (%q), want code NotFound with the message sanitised", st.Code(), st.Message())
	}
}
