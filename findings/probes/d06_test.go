package probes

import (
	"context"
	"testing"
	"time"

	"google.golang.org/grpc/codes"
	"google.golang.org/grpc/status"

	"github.com/fullstorydev/grpchan/grpchantesting"
)

// ctxErrSvc returns a handler set that fails with the given raw context error
// (not wrapped in a status), for both the unary and the server-stream method.
func ctxErrSvc(e error) *funcSvc {
	return &funcSvc{
		unary: func(context.Context, *grpchantesting.Message) (*grpchantesting.Message, error) {
			return nil, e
		},
		serverStream: func(*grpchantesting.Message, grpchantesting.TestService_ServerStreamServer) error {
			return e
		},
	}
}

var ctxErrCases = []struct {
	name string
	err  error
	want codes.Code
}{
	{"deadline", context.DeadlineExceeded, codes.DeadlineExceeded},
	{"canceled", context.Canceled, codes.Canceled},
}

// D6: inprocgrpc.(*Channel).Invoke returns the error frame's error as is. A
// handler returning a raw context error yields code Unknown for unary calls,
// while the streaming path (recvMsgLocked) translates it to
// DeadlineExceeded/Canceled, as does grpc-go's own server.
func TestD06_InprocUnaryTranslatesContextErrors(t *testing.T) {
	for _, tc := range ctxErrCases {
		tc := tc
		t.Run(tc.name, func(t *testing.T) {
			cli := grpchantesting.NewTestServiceClient(newInproc(ctxErrSvc(tc.err)))
			ctx, cancel := context.WithTimeout(context.Background(), 10*time.Second)
			defer cancel()

			// reference: the stream sibling
			str, err := cli.ServerStream(ctx, &grpchantesting.Message{})
			if err != nil {
				t.Fatalf("ServerStream: %v", err)
			}
			_, serr := str.Recv()
			t.Logf("stream: code=%v err=%v", status.Code(serr), serr)
			if status.Code(serr) != tc.want {
				t.Errorf("stream: code %v, want %v", status.Code(serr), tc.want)
			}

			_, uerr := cli.Unary(ctx, &grpchantesting.Message{})
			_, isStatus := status.FromError(uerr)
			t.Logf("unary: code=%v isStatus=%v err=%v", status.Code(uerr), isStatus, uerr)
			if status.Code(uerr) != tc.want {
				t.Errorf("unary: code %v (err %q, status error: %v), want %v", status.Code(uerr), uerr, isStatus, tc.want)
			}
		})
	}
}
