package probes

import (
	"context"
	"testing"
	"time"

	"google.golang.org/grpc/status"

	"github.com/fullstorydev/grpchan/grpchantesting"
)

// D7: httpgrpc server (handleMethod / handleStream) converts a handler's error
// with status.FromError, which maps a raw context error to code Unknown.
// grpc-go's own server uses status.FromContextError for these, giving
// DeadlineExceeded / Canceled.
func TestD07_HTTPServerTranslatesContextErrors(t *testing.T) {
	for _, tc := range ctxErrCases {
		tc := tc
		t.Run(tc.name, func(t *testing.T) {
			ch, _ := startHTTP(t, ctxErrSvc(tc.err), false)
			cli := grpchantesting.NewTestServiceClient(ch)
			ctx, cancel := context.WithTimeout(context.Background(), 10*time.Second)
			defer cancel()

			_, uerr := cli.Unary(ctx, &grpchantesting.Message{})
			t.Logf("unary: code=%v err=%v", status.Code(uerr), uerr)
			if status.Code(uerr) != tc.want {
				t.Errorf("unary: code %v (err %q), want %v", status.Code(uerr), uerr, tc.want)
			}

			str, err := cli.ServerStream(ctx, &grpchantesting.Message{})
			if err != nil {
				t.Fatalf("ServerStream: %v", err)
			}
			_, serr := str.Recv()
			t.Logf("stream: code=%v err=%v", status.Code(serr), serr)
			if status.Code(serr) != tc.want {
				t.Errorf("stream: code %v (err %q), want %v", status.Code(serr), serr, tc.want)
			}
		})
	}
}
