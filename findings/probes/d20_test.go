package probes

import (
	"context"
	"runtime"
	"testing"
	"time"

	"google.golang.org/grpc"
	"google.golang.org/grpc/codes"
	"google.golang.org/grpc/status"

	"github.com/fullstorydev/grpchan/grpchantesting"
)

// D20: httpgrpc Channel.NewStream returns a *clientStreamWrapper that only
// embeds the real stream and carries a finalizer that cancels the call's
// context ("in case the caller forgets the stream"). The wrapper's methods are
// promoted from the embedded value, so nothing keeps the wrapper reachable
// while one of them is blocked: when the blocked call is the caller's LAST use
// of the stream (the final Recv of a loop, CloseAndRecv, ...), a garbage
// collection that happens during the wait runs the finalizer and cancels a
// call that nobody cancelled. The caller sees Canceled instead of the handler's
// result (or instead of DeadlineExceeded when its deadline passes).
func TestD20_GCDuringLastRecvCancelsTheCall(t *testing.T) {
	release := make(chan struct{})
	svc := &funcSvc{
		serverStream: func(m *grpchantesting.Message, str grpchantesting.TestService_ServerStreamServer) error {
			select {
			case <-release:
			case <-str.Context().Done():
			}
			return str.Send(&grpchantesting.Message{Count: 42})
		},
	}
	ch, srv := startHTTP(t, svc, false)
	defer srv.Close()

	ctx, cancel := context.WithTimeout(context.Background(), 20*time.Second)
	defer cancel()

	// a little garbage-collection pressure while the receive below is blocked
	stop := make(chan struct{})
	defer close(stop)
	go func() {
		for i := 0; i < 40; i++ {
			select {
			case <-stop:
				return
			case <-time.After(10 * time.Millisecond):
			}
			runtime.GC()
		}
		close(release)
	}()

	msg, err := lastUseRecv(ctx, t, ch)
	if err != nil {
		t.Fatalf("Recv failed although nobody cancelled the call and the handler answered: %v (code %v)", err, status.Code(err))
	}
	if msg.GetCount() != 42 {
		t.Fatalf("wrong message: %v", msg)
	}
}

// lastUseRecv opens a server stream and blocks in Recv; that Recv is the last
// use of the stream in this function, as in `for { m, err := s.Recv(); ... }`
// on its final iteration or in a plain `return stream.Recv()`.
func lastUseRecv(ctx context.Context, t *testing.T, ch grpc.ClientConnInterface) (*grpchantesting.Message, error) {
	str, err := grpchantesting.NewTestServiceClient(ch).ServerStream(ctx, &grpchantesting.Message{})
	if err != nil {
		t.Fatalf("open: %v", err)
	}
	return str.Recv()
}

var _ = codes.OK

// Companion: the in-process stream carries its finalizer on the stream object
// whose methods block and which they use again after the wait; it must not be
// cancelled by a collection during the wait.
func TestD20_InprocGCDuringLastRecv(t *testing.T) {
	release := make(chan struct{})
	svc := &funcSvc{
		serverStream: func(m *grpchantesting.Message, str grpchantesting.TestService_ServerStreamServer) error {
			select {
			case <-release:
			case <-str.Context().Done():
			}
			return str.Send(&grpchantesting.Message{Count: 42})
		},
	}
	ch := newInproc(svc)
	ctx, cancel := context.WithTimeout(context.Background(), 20*time.Second)
	defer cancel()
	stop := make(chan struct{})
	defer close(stop)
	go func() {
		for i := 0; i < 40; i++ {
			select {
			case <-stop:
				return
			case <-time.After(10 * time.Millisecond):
			}
			runtime.GC()
		}
		close(release)
	}()
	msg, err := lastUseRecv(ctx, t, ch)
	if err != nil {
		t.Fatalf("Recv failed although nobody cancelled the call and the handler answered: %v (code %v)", err, status.Code(err))
	}
	if msg.GetCount() != 42 {
		t.Fatalf("wrong message: %v", msg)
	}
}
