package probes

import (
	"context"
	"io"
	"net/http"
	"strings"
	"testing"

	"github.com/fullstorydev/grpchan/grpchantesting"
)

// D26: the unary HTTP handler had no check for "the handler returned neither a
// response nor an error" (the in-process channel has one). With the protobuf
// content type the v1-based codec happens to refuse a nil message (500); with
// the JSON content type a typed nil pointer is rendered as an empty message:
// HTTP 200 and a fabricated response.
func TestD26_UnaryHTTPNilResponseIsAnError(t *testing.T) {
	svc := &funcSvc{unary: func(ctx context.Context, m *grpchantesting.Message) (*grpchantesting.Message, error) {
		var none *grpchantesting.Message
		return none, nil
	}}
	_, srv := startHTTP(t, svc, false)
	defer srv.Close()
	resp, err := http.Post(srv.URL+"/grpchantesting.TestService/Unary", "application/json", strings.NewReader("{}"))
	if err != nil {
		t.Fatalf("post: %v", err)
	}
	body, _ := io.ReadAll(resp.Body)
	resp.Body.Close()
	if resp.StatusCode == 200 {
		t.Errorf("a handler that returned no response was answered 200 with body %q (X-GRPC-Status %q): success carrying a fabricated message", body, resp.Header.Get("X-GRPC-Status"))
	}
}
