package probes

import (
	"context"
	"errors"
	"testing"

	"google.golang.org/grpc"
	"google.golang.org/grpc/credentials/insecure"

	"github.com/fullstorydev/grpchan"
	"github.com/fullstorydev/grpchan/grpchantesting"
)

// D1: interceptedChannel.NewStream does not fully unwrap the channel to find
// the root *grpc.ClientConn (Invoke does), so with two interception layers the
// outer STREAM interceptor gets cc == nil while the outer UNARY interceptor
// gets the real conn.
func TestD01_StreamInterceptorGetsRootClientConn(t *testing.T) {
	conn, err := grpc.Dial("passthrough:///x", grpc.WithTransportCredentials(insecure.NewCredentials()))
	if err != nil {
		t.Fatalf("dial: %v", err)
	}
	defer conn.Close()

	stop := errors.New("short-circuit")
	passUnary := func(ctx context.Context, method string, req, reply interface{}, cc *grpc.ClientConn, invoker grpc.UnaryInvoker, opts ...grpc.CallOption) error {
		return invoker(ctx, method, req, reply, cc, opts...)
	}
	passStream := func(ctx context.Context, desc *grpc.StreamDesc, cc *grpc.ClientConn, method string, streamer grpc.Streamer, opts ...grpc.CallOption) (grpc.ClientStream, error) {
		return streamer(ctx, desc, cc, method, opts...)
	}

	var unaryCC, streamCC *grpc.ClientConn
	unaryCalled, streamCalled := false, false
	outerUnary := func(ctx context.Context, method string, req, reply interface{}, cc *grpc.ClientConn, invoker grpc.UnaryInvoker, opts ...grpc.CallOption) error {
		unaryCalled, unaryCC = true, cc
		return stop // never reaches the network
	}
	outerStream := func(ctx context.Context, desc *grpc.StreamDesc, cc *grpc.ClientConn, method string, streamer grpc.Streamer, opts ...grpc.CallOption) (grpc.ClientStream, error) {
		streamCalled, streamCC = true, cc
		return nil, stop
	}

	inner := grpchan.InterceptClientConn(conn, passUnary, passStream)
	outer := grpchan.InterceptClientConn(inner, outerUnary, outerStream)

	cli := grpchantesting.NewTestServiceClient(outer)
	if _, err := cli.Unary(context.Background(), &grpchantesting.Message{}); err != stop {
		t.Fatalf("unary: unexpected error %v", err)
	}
	if _, err := cli.BidiStream(context.Background()); err != stop {
		t.Fatalf("stream: unexpected error %v", err)
	}
	if !unaryCalled || !streamCalled {
		t.Fatalf("interceptors not called: unary=%v stream=%v", unaryCalled, streamCalled)
	}
	if unaryCC != conn {
		t.Errorf("outer unary interceptor got cc=%p, want root conn %p", unaryCC, conn)
	}
	if streamCC != conn {
		t.Errorf("outer stream interceptor got cc=%p, want root conn %p (unary interceptor got %p)", streamCC, conn, unaryCC)
	}
}
