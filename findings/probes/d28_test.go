package probes

import (
	"context"
	"fmt"
	"io"
	"testing"
	"time"

	"github.com/fullstorydev/grpchan/grpchantesting"
)

// D28: httpgrpc serverStream has no "finished" state: a goroutine that a stream
// handler leaves behind and that sends on the stream after the handler has
// returned writes to (and flushes) an http.ResponseWriter that net/http has
// already recycled — a nil-pointer panic in the server process (or a write into
// a buffer that now belongs to another request) instead of the io.EOF the
// in-process transport and grpc-go report for a send on a finished stream.
func TestD28_ServerSendAfterHandlerReturned(t *testing.T) {
	late := make(chan string, 1)
	svc := &funcSvc{serverStream: func(m *grpchantesting.Message, str grpchantesting.TestService_ServerStreamServer) error {
		go func() {
			defer func() {
				if r := recover(); r != nil {
					late <- fmt.Sprintf("panic: %v", r)
				}
			}()
			time.Sleep(300 * time.Millisecond)
			_ = str.Send(&grpchantesting.Message{})
			err := str.Send(&grpchantesting.Message{Payload: make([]byte, 10240)})
			late <- fmt.Sprintf("%v", err)
		}()
		return nil
	}}
	ch, _ := startHTTP(t, svc, false)
	ctx, cancel := context.WithTimeout(context.Background(), 10*time.Second)
	defer cancel()
	str, err := grpchantesting.NewTestServiceClient(ch).ServerStream(ctx, &grpchantesting.Message{})
	if err != nil {
		t.Fatalf("open: %v", err)
	}
	if _, err := str.Recv(); err != io.EOF {
		t.Fatalf("expected a clean end of the stream, got %v", err)
	}
	select {
	case got := <-late:
		if got != io.EOF.Error() {
			t.Fatalf("a send on the server stream after the handler returned: %s (want io.EOF)", got)
		}
	case <-time.After(5 * time.Second):
		t.Fatal("the late sender never finished")
	}
}
