package probes

// Shared helpers for the dNN probes. Only the public API of the grpchan
// packages is used.

import (
	"bytes"
	"context"
	"encoding/binary"
	"io"
	"net/http"
	"net/http/httptest"
	"net/url"
	"testing"

	"google.golang.org/protobuf/proto"

	"github.com/fullstorydev/grpchan/grpchantesting"
	"github.com/fullstorydev/grpchan/httpgrpc"
	"github.com/fullstorydev/grpchan/inprocgrpc"
)

// funcSvc is a TestService implementation whose methods are pluggable.
type funcSvc struct {
	grpchantesting.UnimplementedTestServiceServer
	unary        func(context.Context, *grpchantesting.Message) (*grpchantesting.Message, error)
	clientStream func(grpchantesting.TestService_ClientStreamServer) error
	serverStream func(*grpchantesting.Message, grpchantesting.TestService_ServerStreamServer) error
}

func (s *funcSvc) Unary(ctx context.Context, m *grpchantesting.Message) (*grpchantesting.Message, error) {
	if s.unary == nil {
		return s.UnimplementedTestServiceServer.Unary(ctx, m)
	}
	return s.unary(ctx, m)
}

func (s *funcSvc) ClientStream(str grpchantesting.TestService_ClientStreamServer) error {
	if s.clientStream == nil {
		return s.UnimplementedTestServiceServer.ClientStream(str)
	}
	return s.clientStream(str)
}

func (s *funcSvc) ServerStream(m *grpchantesting.Message, str grpchantesting.TestService_ServerStreamServer) error {
	if s.serverStream == nil {
		return s.UnimplementedTestServiceServer.ServerStream(m, str)
	}
	return s.serverStream(m, str)
}

// newInproc returns an in-process channel serving svc.
func newInproc(svc grpchantesting.TestServiceServer) *inprocgrpc.Channel {
	ch := &inprocgrpc.Channel{}
	grpchantesting.RegisterTestServiceServer(ch, svc)
	return ch
}

// startHTTP serves svc with httpgrpc.NewServer on an httptest server (TLS if
// useTLS) and returns a client channel for it.
func startHTTP(t *testing.T, svc grpchantesting.TestServiceServer, useTLS bool) (*httpgrpc.Channel, *httptest.Server) {
	t.Helper()
	hsvr := httpgrpc.NewServer()
	grpchantesting.RegisterTestServiceServer(hsvr, svc)
	var ts *httptest.Server
	if useTLS {
		ts = httptest.NewTLSServer(hsvr)
	} else {
		ts = httptest.NewServer(hsvr)
	}
	t.Cleanup(func() {
		ts.CloseClientConnections()
		ts.Close()
	})
	u, err := url.Parse(ts.URL)
	if err != nil {
		t.Fatalf("bad URL %q: %v", ts.URL, err)
	}
	// a private transport per test so connections are not shared across tests
	tr := ts.Client().Transport
	return &httpgrpc.Channel{Transport: tr, BaseURL: u}, ts
}

// rtFunc adapts a function to http.RoundTripper.
type rtFunc func(*http.Request) (*http.Response, error)

func (f rtFunc) RoundTrip(r *http.Request) (*http.Response, error) { return f(r) }

// drain consumes the request body like a real transport would (the httpgrpc
// stream client writes requests to a pipe that is the request body).
func drain(r *http.Request) {
	if r.Body != nil {
		_, _ = io.Copy(io.Discard, r.Body)
		_ = r.Body.Close()
	}
}

// streamReply builds a "200 OK" streaming reply with the given body bytes.
func streamReply(r *http.Request, body []byte) *http.Response {
	h := http.Header{}
	h.Set("Content-Type", httpgrpc.StreamRpcContentType_V1)
	return &http.Response{
		Status:        "200 OK",
		StatusCode:    200,
		Proto:         "HTTP/1.1",
		ProtoMajor:    1,
		ProtoMinor:    1,
		Header:        h,
		Body:          io.NopCloser(bytes.NewReader(body)),
		ContentLength: -1,
		Request:       r,
	}
}

// fakeChannel returns an httpgrpc channel whose transport drains the request
// and then answers with fn.
func fakeChannel(fn func(*http.Request) (*http.Response, error)) *httpgrpc.Channel {
	u, _ := url.Parse("http://fake.invalid/")
	return &httpgrpc.Channel{
		BaseURL: u,
		Transport: rtFunc(func(r *http.Request) (*http.Response, error) {
			drain(r)
			return fn(r)
		}),
	}
}

// dataFrame encodes m as a httpgrpc v1 stream data frame: 4-byte big-endian
// length followed by the marshalled message.
func dataFrame(t *testing.T, m proto.Message) []byte {
	t.Helper()
	b, err := proto.Marshal(m)
	if err != nil {
		t.Fatalf("marshal: %v", err)
	}
	out := make([]byte, 4, 4+len(b))
	binary.BigEndian.PutUint32(out, uint32(len(b)))
	return append(out, b...)
}
