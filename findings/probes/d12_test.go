package probes

import (
	"context"
	"fmt"
	"io"
	"net/http"
	"testing"
	"time"

	"google.golang.org/grpc"
	"google.golang.org/grpc/metadata"

	"google.golang.org/grpc/codes"
	"google.golang.org/grpc/status"

	"github.com/fullstorydev/grpchan/grpchantesting"
)

// D12: httpgrpc clientStream.doHttpCall stores the error from reading the
// reply body as the stream's terminal error without translating it. After the
// client's context is cancelled, the body read fails with the raw
// context.Canceled, so Recv returns a non-status error (code Unknown) instead
// of a status with code Canceled.
//
// Schedule: Recv first message; cancel ctx; wait 100ms (so that the reader
// goroutine has observed the failed body read and marked the stream done);
// call Recv again.
func TestD12_RecvAfterCancelReturnsCanceledStatus(t *testing.T) {
	t.Run("stream", testD12Stream)
	t.Run("unary-invoke", testD12Unary)
}

func testD12Stream(t *testing.T) {
	svc := &funcSvc{
		serverStream: func(m *grpchantesting.Message, str grpchantesting.TestService_ServerStreamServer) error {
			if err := str.Send(&grpchantesting.Message{Count: 1}); err != nil {
				return err
			}
			<-str.Context().Done()
			return status.FromContextError(str.Context().Err()).Err()
		},
	}
	ch, _ := startHTTP(t, svc, false)
	cli := grpchantesting.NewTestServiceClient(ch)

	ctx, cancel := context.WithCancel(context.Background())
	defer cancel()
	str, err := cli.ServerStream(ctx, &grpchantesting.Message{})
	if err != nil {
		t.Fatalf("ServerStream: %v", err)
	}
	recv := func() error {
		done := make(chan error, 1)
		go func() {
			_, err := str.Recv()
			done <- err
		}()
		select {
		case err := <-done:
			return err
		case <-time.After(10 * time.Second):
			t.Fatalf("Recv hung")
			return nil
		}
	}
	if err := recv(); err != nil {
		t.Fatalf("first Recv: %v", err)
	}
	cancel()
	time.Sleep(100 * time.Millisecond)
	for i := 0; i < 5; i++ {
		err := recv()
		st, ok := status.FromError(err)
		t.Logf("Recv #%d after cancel: err=%v (%T) isStatus=%v code=%v", i+1, err, err, ok, st.Code())
		if err == nil {
			t.Fatalf("Recv #%d after cancel returned a message", i+1)
		}
		if !ok || st.Code() != codes.Canceled {
			t.Errorf("Recv #%d after cancel: got %q (%T, status error: %v, code %v); want status error with code Canceled",
				i+1, err, err, ok, st.Code())
		}
		time.Sleep(20 * time.Millisecond)
	}
}

// ctxBody mimics the reply body of net/http's Transport for a request whose
// context gets cancelled: Read blocks until the context is done and then
// fails with the raw context error.
type ctxBody struct{ ctx context.Context }

func (b ctxBody) Read([]byte) (int, error) { <-b.ctx.Done(); return 0, b.ctx.Err() }
func (b ctxBody) Close() error             { return nil }

// Unary variant: (*Channel).Invoke reads the reply body in a goroutine and
// then selects on ctx.Done() vs. "body read finished". If both are ready, Go
// picks at random; the "body read finished" arm returns the raw read error
// (context.Canceled) untranslated. The window is normally tiny; it is widened
// here by a reply with many headers (Invoke converts them to metadata between
// starting the reader goroutine and the select) and a context that is
// cancelled just as RoundTrip returns.
func testD12Unary(t *testing.T) {
	const iterations = 40
	raw := 0
	var firstRaw error
	for i := 0; i < iterations; i++ {
		ctx, cancel := context.WithCancel(context.Background())
		ch := fakeChannel(func(r *http.Request) (*http.Response, error) {
			h := http.Header{}
			h.Set("Content-Type", "application/x-protobuf")
			for j := 0; j < 20000; j++ {
				h.Set(fmt.Sprintf("X-Pad-%d", j), "v")
			}
			cancel() // caller cancels concurrently with the arrival of the reply head
			return &http.Response{
				Status: "200 OK", StatusCode: 200, Proto: "HTTP/1.1", ProtoMajor: 1, ProtoMinor: 1,
				Header: h, Body: ctxBody{r.Context()}, ContentLength: -1, Request: r,
			}, nil
		})
		var hdr metadata.MD
		err := ch.Invoke(ctx, "/grpchantesting.TestService/Unary", &grpchantesting.Message{}, &grpchantesting.Message{}, grpc.Header(&hdr))
		cancel()
		if err == nil || err == io.EOF {
			t.Fatalf("iteration %d: Invoke returned %v with a cancelled context", i, err)
		}
		if st, ok := status.FromError(err); !ok || st.Code() != codes.Canceled {
			raw++
			if firstRaw == nil {
				firstRaw = err
			}
		}
	}
	t.Logf("%d of %d Invoke calls returned a non-Canceled-status error; first: %v (%T)", raw, iterations, firstRaw, firstRaw)
	if raw > 0 {
		t.Errorf("%d of %d Invoke calls cancelled during the body read returned %q (%T) instead of a status error with code Canceled",
			raw, iterations, firstRaw, firstRaw)
	}
}
