package probes

import (
	"context"
	"io"
	"testing"
	"time"

	"google.golang.org/grpc/codes"
	"google.golang.org/grpc/status"

	"github.com/fullstorydev/grpchan/grpchantesting"
)

// D27: httpgrpc clientStream: when the handler of a client-streaming call returns
// early, the reply (status trailer) reaches the client while it is still sending.
// doHttpCall reads the trailer under rMu and, still holding rMu, runs its deferred
// drain of the reply body BEFORE the completion step that marks the stream done and
// closes the request pipe. The reply only ends when the server's handler function
// returns, which waits (drainAndClose) for the end of the request body, which only
// comes when the client stops sending — but the client's SendMsg is parked on rMu
// (readErrorIfDone). Once net/http's post-handler discard limit (256 KiB) is passed
// the cycle closes: SendMsg blocks until the caller's context ends, although the
// handler has long returned and the final status is known to the stream.
func TestD27_SendAfterEarlyHandlerReturnBlocks(t *testing.T) {
	svc := &funcSvc{clientStream: func(str grpchantesting.TestService_ClientStreamServer) error {
		if _, err := str.Recv(); err != nil {
			return err
		}
		return status.Error(codes.InvalidArgument, "enough")
	}}
	ch, _ := startHTTP(t, svc, false)
	ctx, cancel := context.WithTimeout(context.Background(), 20*time.Second)
	defer cancel()
	str, err := grpchantesting.NewTestServiceClient(ch).ClientStream(ctx)
	if err != nil {
		t.Fatalf("open: %v", err)
	}
	payload := make([]byte, 4096)
	done := make(chan error, 1)
	go func() {
		// the usual idiom: send until Send says io.EOF, then ask for the status
		for i := 0; i < 400; i++ {
			if err := str.Send(&grpchantesting.Message{Payload: payload}); err != nil {
				if err != io.EOF {
					done <- err
					return
				}
				break
			}
		}
		_, err := str.CloseAndRecv()
		done <- err
	}()
	select {
	case err := <-done:
		if status.Code(err) != codes.InvalidArgument {
			t.Fatalf("expected the handler's InvalidArgument, got %v", err)
		}
	case <-time.After(5 * time.Second):
		t.Fatalf("the client is still blocked in Send 5s after the handler returned (it stays so until its context ends)")
	}
}
