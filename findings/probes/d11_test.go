package probes

import (
	"context"
	"io"
	"testing"
	"time"

	"google.golang.org/grpc"
	"google.golang.org/grpc/credentials"
	"google.golang.org/grpc/peer"

	"github.com/fullstorydev/grpchan/grpchantesting"
)

// D11: httpgrpc.(*Channel).Invoke builds the peer from r.TLS where r is the
// outgoing *http.Request (whose TLS field is always nil on the client side)
// instead of reply.TLS. So over https a unary call reports no AuthInfo while
// a streaming call on the same channel reports credentials.TLSInfo.
func TestD11_UnaryPeerHasTLSInfo(t *testing.T) {
	svc := &funcSvc{
		unary: func(ctx context.Context, m *grpchantesting.Message) (*grpchantesting.Message, error) {
			return m, nil
		},
		serverStream: func(m *grpchantesting.Message, str grpchantesting.TestService_ServerStreamServer) error {
			return nil
		},
	}
	ch, _ := startHTTP(t, svc, true)
	if ch.BaseURL.Scheme != "https" {
		t.Fatalf("expected https URL, got %v", ch.BaseURL)
	}
	cli := grpchantesting.NewTestServiceClient(ch)
	ctx, cancel := context.WithTimeout(context.Background(), 10*time.Second)
	defer cancel()

	// reference: streaming call
	var sp peer.Peer
	str, err := cli.ServerStream(ctx, &grpchantesting.Message{}, grpc.Peer(&sp))
	if err != nil {
		t.Fatalf("ServerStream: %v", err)
	}
	if _, err := str.Recv(); err != io.EOF {
		t.Fatalf("stream Recv: %v", err)
	}
	t.Logf("stream peer: addr=%v authinfo=%T", sp.Addr, sp.AuthInfo)
	if _, ok := sp.AuthInfo.(credentials.TLSInfo); !ok {
		t.Errorf("stream peer AuthInfo is %T, want credentials.TLSInfo", sp.AuthInfo)
	}

	var up peer.Peer
	if _, err := cli.Unary(ctx, &grpchantesting.Message{}, grpc.Peer(&up)); err != nil {
		t.Fatalf("Unary: %v", err)
	}
	t.Logf("unary peer: addr=%v authinfo=%T", up.Addr, up.AuthInfo)
	if up.AuthInfo == nil {
		t.Fatalf("unary peer AuthInfo is nil over https (stream peer has %T)", sp.AuthInfo)
	}
	if _, ok := up.AuthInfo.(credentials.TLSInfo); !ok {
		t.Errorf("unary peer AuthInfo is %T, want credentials.TLSInfo", up.AuthInfo)
	}
}
