package probes

import (
	"context"
	"testing"
	"time"

	"github.com/fullstorydev/grpchan/grpchantesting"
)

// D19 (suspected; remark of two mutation authors about the unmodified code):
// over HTTP, when a client-streaming / bidi handler returns while the client
// has not half-closed yet, does the client's Recv complete in bounded time?
// The server handler closure drains the request body after the gRPC handler
// returned; the client closes the request pipe only in the completion defer of
// the reply reader, which runs after its own deferred drain of the reply body.
func TestD19_HandlerReturnsWhileClientStillSending(t *testing.T) {
	svc := &funcSvc{
		clientStream: func(str grpchantesting.TestService_ClientStreamServer) error {
			// read one request, answer, and return without waiting for the client's half-close
			if _, err := str.Recv(); err != nil {
				return err
			}
			return str.SendAndClose(&grpchantesting.Message{Count: 7})
		},
	}
	ch, _ := startHTTP(t, svc, false)
	cli := grpchantesting.NewTestServiceClient(ch)
	// no deadline on purpose: only cancel at the very end
	ctx, cancel := context.WithCancel(context.Background())
	defer cancel()
	cs, err := cli.ClientStream(ctx)
	if err != nil {
		t.Fatalf("ClientStream: %v", err)
	}
	if err := cs.Send(&grpchantesting.Message{Count: 1}); err != nil {
		t.Fatalf("Send: %v", err)
	}
	type res struct {
		m   *grpchantesting.Message
		err error
	}
	done := make(chan res, 1)
	go func() {
		// receive WITHOUT half-closing first (RecvMsg on the raw stream)
		m := &grpchantesting.Message{}
		err := cs.RecvMsg(m)
		done <- res{m, err}
	}()
	select {
	case r := <-done:
		t.Logf("RecvMsg returned: count=%d err=%v", r.m.GetCount(), r.err)
	case <-time.After(5 * time.Second):
		t.Errorf("RecvMsg still blocked 5s after the handler returned (the client never half-closed): not bounded by anything but the caller's context")
		cancel()
		<-done
	}
}
