package probes

import (
	"bytes"
	"context"
	"io"
	"net/http"
	"testing"
	"time"

	"google.golang.org/protobuf/proto"

	"github.com/fullstorydev/grpchan/grpchantesting"
	"github.com/fullstorydev/grpchan/httpgrpc"
)

// D10: httpgrpc contextFromHeaders computes time.Duration(timeoutVal) * unit
// without overflow protection. The gRPC wire spec allows up to 8 digits, so
// "99999999H" is a legal timeout; it overflows int64 nanoseconds and becomes
// a negative/garbage duration, so the handler's context is already expired.
func TestD10_GrpcTimeoutOverflow(t *testing.T) {
	type seen struct {
		deadline    time.Time
		hasDeadline bool
		err         error
		at          time.Time
	}
	seenCh := make(chan seen, 1)
	svc := &funcSvc{
		unary: func(ctx context.Context, m *grpchantesting.Message) (*grpchantesting.Message, error) {
			var s seen
			s.at = time.Now()
			s.err = ctx.Err()
			s.deadline, s.hasDeadline = ctx.Deadline()
			seenCh <- s
			return m, nil
		},
	}
	_, ts := startHTTP(t, svc, false)
	body, err := proto.Marshal(&grpchantesting.Message{Payload: []byte("x")})
	if err != nil {
		t.Fatal(err)
	}

	for _, timeout := range []string{"99999999H", "2562048H", "99999999M" /* control: does not overflow */} {
		timeout := timeout
		t.Run(timeout, func(t *testing.T) {
			req, err := http.NewRequest("POST", ts.URL+"/grpchantesting.TestService/Unary", bytes.NewReader(body))
			if err != nil {
				t.Fatal(err)
			}
			req.Header.Set("Content-Type", httpgrpc.UnaryRpcContentType_V1)
			req.Header.Set("GRPC-Timeout", timeout)
			resp, err := ts.Client().Do(req)
			if err != nil {
				t.Fatalf("POST: %v", err)
			}
			_, _ = io.Copy(io.Discard, resp.Body)
			resp.Body.Close()
			t.Logf("HTTP status %q, X-GRPC-Status %q", resp.Status, resp.Header.Get("X-GRPC-Status"))

			select {
			case s := <-seenCh:
				t.Logf("handler saw: hasDeadline=%v deadline-in=%v ctx.Err()=%v", s.hasDeadline, s.deadline.Sub(s.at), s.err)
				if s.err != nil {
					t.Errorf("GRPC-Timeout %s: context already done at handler entry: %v", timeout, s.err)
				}
				if s.hasDeadline && s.deadline.Sub(s.at) < time.Hour {
					t.Errorf("GRPC-Timeout %s: handler deadline is %v from now; want none or >= 1h", timeout, s.deadline.Sub(s.at))
				}
			case <-time.After(5 * time.Second):
				t.Fatalf("handler not invoked (HTTP status %q)", resp.Status)
			}
			if resp.StatusCode != 200 {
				t.Errorf("GRPC-Timeout %s: HTTP status %q, want 200", timeout, resp.Status)
			}
		})
	}
}
