package probes

import (
	"context"
	"runtime"
	"testing"
	"time"

	"google.golang.org/grpc/metadata"

	"github.com/fullstorydev/grpchan/grpchantesting"
)

// D18: inprocgrpc Channel.Invoke builds the handler's context (and with it the
// copy of the caller's outgoing metadata) on the server goroutine. Invoke
// returns as soon as the caller's context is done, possibly before that
// goroutine has run at all. The caller owns its metadata.MD again once Invoke
// has returned (on a network the headers were written before the call could
// return), so a caller that re-uses the map - e.g. bumps an "attempt" key in a
// retry loop - has the change show up as the handler's incoming metadata, and
// the map is read and written concurrently (the race detector reports it;
// without it the runtime may abort with "concurrent map read and map write").
// NewStream takes the snapshot before it returns.
func TestD18_UnaryMetadataSnapshotTakenBeforeInvokeReturns(t *testing.T) {
	defer runtime.GOMAXPROCS(runtime.GOMAXPROCS(1)) // deterministic: the new goroutine cannot run before Invoke returns
	seen := make(chan string, 1)
	svc := &funcSvc{
		unary: func(ctx context.Context, m *grpchantesting.Message) (*grpchantesting.Message, error) {
			md, _ := metadata.FromIncomingContext(ctx)
			v := ""
			if vs := md.Get("attempt"); len(vs) > 0 {
				v = vs[0]
			}
			seen <- v
			return m, nil
		},
	}
	cli := grpchantesting.NewTestServiceClient(newInproc(svc))
	md := metadata.Pairs("attempt", "1")
	ctx, cancel := context.WithCancel(metadata.NewOutgoingContext(context.Background(), md))
	cancel() // e.g. the deadline of attempt 1 has already passed
	_, err := cli.Unary(ctx, &grpchantesting.Message{})
	if err == nil {
		t.Fatalf("call with a cancelled context succeeded")
	}
	md.Set("attempt", "2") // the caller owns md again
	select {
	case v := <-seen:
		if v != "1" {
			t.Errorf("handler of attempt 1 saw attempt=%q: the metadata was read after Invoke returned", v)
		}
	case <-time.After(5 * time.Second):
		t.Log("handler did not run (acceptable)")
	}
}
