package probes

import (
	"context"
	"io"
	"testing"
	"time"

	"google.golang.org/grpc/codes"
	"google.golang.org/grpc/status"

	"github.com/fullstorydev/grpchan/grpchantesting"
)

// D13: inprocgrpc inProcessClientStream.ensureNoMoreLocked treats ANY error
// from probing for a second response as "no more messages, all good". If the
// handler sends its single response and then fails, the failure is swallowed:
// CloseAndRecv returns (resp, nil). Over HTTP (and real gRPC) the failure wins.
func TestD13_ClientStreamErrorAfterResponse(t *testing.T) {
	svc := &funcSvc{
		clientStream: func(str grpchantesting.TestService_ClientStreamServer) error {
			for {
				if _, err := str.Recv(); err == io.EOF {
					break
				} else if err != nil {
					return err
				}
			}
			if err := str.SendAndClose(&grpchantesting.Message{Count: 42}); err != nil {
				return err
			}
			return status.Error(codes.DataLoss, "x")
		},
	}
	run := func(t *testing.T, cli grpchantesting.TestServiceClient) error {
		ctx, cancel := context.WithTimeout(context.Background(), 10*time.Second)
		defer cancel()
		str, err := cli.ClientStream(ctx)
		if err != nil {
			t.Fatalf("ClientStream: %v", err)
		}
		if err := str.Send(&grpchantesting.Message{}); err != nil {
			t.Fatalf("Send: %v", err)
		}
		resp, err := str.CloseAndRecv()
		t.Logf("CloseAndRecv: resp=%v err=%v", resp, err)
		return err
	}

	// reference: same handler over HTTP
	t.Run("http-reference", func(t *testing.T) {
		ch, _ := startHTTP(t, svc, false)
		err := run(t, grpchantesting.NewTestServiceClient(ch))
		if status.Code(err) != codes.DataLoss {
			t.Errorf("http: code %v (err %v), want DataLoss", status.Code(err), err)
		}
	})
	t.Run("inproc", func(t *testing.T) {
		err := run(t, grpchantesting.NewTestServiceClient(newInproc(svc)))
		if err == nil {
			t.Fatalf("in-process CloseAndRecv returned nil error although the handler failed with DataLoss")
		}
		if status.Code(err) != codes.DataLoss {
			t.Errorf("inproc: code %v (err %v), want DataLoss", status.Code(err), err)
		}
	})
}
