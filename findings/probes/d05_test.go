package probes

import (
	"context"
	"io"
	"reflect"
	"testing"
	"time"

	"google.golang.org/grpc/metadata"

	"github.com/fullstorydev/grpchan/grpchantesting"
)

// D5: httpgrpc streaming trailers are carried in the HttpTrailer proto whose
// values are proto3 `string`s; "-bin" trailer values are NOT base64-encoded
// (unlike headers / unary trailers), so a binary value that is not valid UTF-8
// makes the trailer frame unmarshallable: the server writes nothing and the
// client sees a truncated stream.
func TestD05_BinaryTrailerInStream(t *testing.T) {
	const binVal = "\xff\x00\xfe"
	want := []string{binVal}
	svc := &funcSvc{
		serverStream: func(m *grpchantesting.Message, str grpchantesting.TestService_ServerStreamServer) error {
			str.SetTrailer(metadata.Pairs("x-bin", binVal))
			return str.Send(&grpchantesting.Message{Count: 1})
		},
		clientStream: func(str grpchantesting.TestService_ClientStreamServer) error {
			for {
				if _, err := str.Recv(); err == io.EOF {
					break
				} else if err != nil {
					return err
				}
			}
			str.SetTrailer(metadata.Pairs("x-bin", binVal))
			return str.SendAndClose(&grpchantesting.Message{Count: 1})
		},
	}
	ch, _ := startHTTP(t, svc, false)
	cli := grpchantesting.NewTestServiceClient(ch)

	t.Run("server-stream", func(t *testing.T) {
		ctx, cancel := context.WithTimeout(context.Background(), 10*time.Second)
		defer cancel()
		str, err := cli.ServerStream(ctx, &grpchantesting.Message{})
		if err != nil {
			t.Fatalf("ServerStream: %v", err)
		}
		if _, err := str.Recv(); err != nil {
			t.Fatalf("first Recv: %v", err)
		}
		_, err = str.Recv()
		t.Logf("final Recv error: %v; trailer: %q", err, str.Trailer())
		if err != io.EOF {
			t.Errorf("stream did not finish with success (io.EOF): %v", err)
		}
		if got := str.Trailer()["x-bin"]; !reflect.DeepEqual(got, want) {
			t.Errorf("trailer x-bin = %q, want %q", got, want)
		}
	})
	t.Run("client-stream", func(t *testing.T) {
		ctx, cancel := context.WithTimeout(context.Background(), 10*time.Second)
		defer cancel()
		str, err := cli.ClientStream(ctx)
		if err != nil {
			t.Fatalf("ClientStream: %v", err)
		}
		if err := str.Send(&grpchantesting.Message{}); err != nil {
			t.Fatalf("Send: %v", err)
		}
		_, err = str.CloseAndRecv()
		t.Logf("CloseAndRecv error: %v; trailer: %q", err, str.Trailer())
		if err != nil {
			t.Errorf("CloseAndRecv failed: %v", err)
		}
		if got := str.Trailer()["x-bin"]; !reflect.DeepEqual(got, want) {
			t.Errorf("trailer x-bin = %q, want %q", got, want)
		}
	})
}
