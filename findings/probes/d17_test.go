package probes

import (
	"testing"

	"github.com/jhump/protoreflect/desc"
	"github.com/jhump/protoreflect/dynamic"

	"github.com/fullstorydev/grpchan/grpchantesting"
	"github.com/fullstorydev/grpchan/inprocgrpc"
)

// D17 (observation, outside what the static checks decide): the default cloner
// on *dynamic.Message values. A mutation-wave author remarked that clones and
// dynamic<->generated copies share byte slices / nested messages with their
// source. This probe records what actually happens.
func TestD17_DynamicMessageCloneSharing(t *testing.T) {
	md, err := desc.LoadMessageDescriptorForMessage(&grpchantesting.Message{})
	if err != nil {
		t.Fatal(err)
	}
	src := dynamic.NewMessage(md)
	payload := []byte("abcdef")
	src.SetFieldByName("payload", payload)
	cl, err := inprocgrpc.ProtoCloner{}.Clone(src)
	if err != nil {
		t.Fatalf("Clone: %v", err)
	}
	got := cl.(*dynamic.Message).GetFieldByName("payload").([]byte)
	if len(got) > 0 {
		got[0] = 'X'
	}
	if string(src.GetFieldByName("payload").([]byte)) != "abcdef" {
		t.Errorf("Clone(dynamic): mutating the clone's bytes changed the source: %q", src.GetFieldByName("payload"))
	}
	// dynamic -> generated copy
	src2 := dynamic.NewMessage(md)
	p2 := []byte("abcdef")
	src2.SetFieldByName("payload", p2)
	var out grpchantesting.Message
	if err := (inprocgrpc.ProtoCloner{}).Copy(&out, src2); err != nil {
		t.Fatalf("Copy: %v", err)
	}
	if len(out.Payload) > 0 {
		out.Payload[0] = 'X'
	}
	if string(src2.GetFieldByName("payload").([]byte)) != "abcdef" {
		t.Errorf("Copy(dynamic->generated): mutating the destination's bytes changed the source: %q", src2.GetFieldByName("payload"))
	}
	// generated -> dynamic copy
	src3 := &grpchantesting.Message{Payload: []byte("abcdef")}
	out3 := dynamic.NewMessage(md)
	if err := (inprocgrpc.ProtoCloner{}).Copy(out3, src3); err != nil {
		t.Fatalf("Copy: %v", err)
	}
	b3 := out3.GetFieldByName("payload").([]byte)
	if len(b3) > 0 {
		b3[0] = 'X'
	}
	if string(src3.Payload) != "abcdef" {
		t.Errorf("Copy(generated->dynamic): mutating the destination's bytes changed the source: %q", src3.Payload)
	}
}
