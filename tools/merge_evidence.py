#!/usr/bin/env python3
"""Adds the self-test results of a thorough run (386 pass, seeded variants,
sub-agent mutants) to evidence/<id>.json written by the checker."""
import json, sys, os
V = os.path.dirname(os.path.dirname(os.path.abspath(__file__)))
prop, rc386, vjson, sjson = sys.argv[1:5]
rjson = sys.argv[5] if len(sys.argv) > 5 else ""
p = os.path.join(V, "evidence", prop + ".json")
ev = json.load(open(p))
cov = ev["coverage"]
def load(f):
    try:
        return json.load(open(f))
    except Exception:
        return []
vs, ss = load(vjson), load(sjson)
rs = load(rjson) if rjson else []
cov["selftest"] = {
    "goarch_386_pass_exit": int(rc386),
    "variants_run": len(vs),
    "variants_as_expected": sum(1 for v in vs if v["status"] in ("OK",)),
    "variants_skipped": sum(1 for v in vs if v["status"] == "SKIP"),
    "variants_not_as_expected": [v for v in vs if v["status"] not in ("OK", "SKIP")],
    "subagent_mutants_replayed": len(ss),
    "subagent_mutants_caught": sum(1 for s in ss if s["status"] == "caught"),
    "subagent_mutants_missed": [s["id"] for s in ss if s["status"] == "missed"],
    "subagent_mutants_not_decided": [{"id": s["id"], "reason": s.get("reason", "")} for s in ss if s["status"] == "not-decided"],
    "refactorings_applied": sum(1 for r in rs if r["status"] != "SKIP"),
    "refactorings_silent": sum(1 for r in rs if r["status"] == "SILENT"),
    "refactorings_skipped": [r["refactor"] for r in rs if r["status"] == "SKIP"],
    "refactorings_alarm": [r for r in rs if r["status"] == "ALARM"],
}
cov["explanation"] += " Thorough tier additionally: whole-program SSA, compiler prove-pass cross-check of bounds obligations, a second pass with GOARCH=386, %d seeded variants (%d as expected) and %d independently written mutants (%d caught) replayed against scratch copies of the current tree, and %d independently written behaviour-preserving refactorings applied (%d silent)." % (
    len(vs), cov["selftest"]["variants_as_expected"], len(ss), cov["selftest"]["subagent_mutants_caught"], cov["selftest"]["refactorings_applied"], cov["selftest"]["refactorings_silent"])
json.dump(ev, open(p, "w"), indent=1)
