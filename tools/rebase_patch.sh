#!/bin/sh
# rebase a patch valid at $BASE over the commits $BASE..HEAD of /repo
P="$1"; BASE="$2"
export GOFLAGS=-mod=mod GOPROXY=off GOSUMDB=off GOTOOLCHAIN=local; unset GOWORK
HEADC=$(git -C /repo rev-parse HEAD)
D=$(mktemp -d /var/tmp/rb.XXXXXX); rmdir $D
git -C /repo worktree add --detach $D $BASE >/dev/null 2>&1 || exit 3
cd $D
if ! git apply --whitespace=nowarn "$P" 2>/dev/null; then echo "NOAPPLY-OLD $P"; cd /; git -C /repo worktree remove --force $D; exit 2; fi
git add -A >/dev/null; git -c user.name=x -c user.email=x@x commit -qm tmp
if git -c user.name=x -c user.email=x@x cherry-pick $BASE..$HEADC >/dev/null 2>&1 && go build ./... 2>/dev/null; then
  git diff $HEADC HEAD > "$P.new" && mv "$P.new" "$P" && echo "REBASED $P"
else
  git cherry-pick --abort 2>/dev/null
  git checkout -q --detach $HEADC 2>/dev/null; git reset -q --hard $HEADC
  if git apply -C1 --whitespace=nowarn "$P" 2>/dev/null && go build ./... 2>/dev/null; then git diff > "$P.new"; mv "$P.new" "$P"; echo "REBASED(-C1) $P"; else echo "CONFLICT $P"; fi
fi
cd /; git -C /repo worktree remove --force $D
