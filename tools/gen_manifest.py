#!/usr/bin/env python3
"""Regenerates /verif/MANIFEST.json from the table below and the list of
properties the checker binary registers (bin/grpchanlint -list).  Properties
without a registered rule file are listed under not_applicable with the reason
given here."""
import json, os, subprocess, sys

V = os.path.dirname(os.path.dirname(os.path.abspath(__file__)))

TEXT = {
 "C01": ("per-call channels/no shared per-call state, send-success implies exactly one hand-over, recv-success implies exactly one fill, sends/receives serialised under the per-direction lock in blocking selects, reader/writer framing agreement, a call's HTTP request is put on the wire at most once",
         "message content equality, loss/duplication needing schedule exploration, parity with the standard transport"),
 "C02": ("success needs an observed clean end (ctx re-check after receive; io.EOF never published as terminal error without normalisation), handler error always put on the wire, all three status components transferred, inventory of discarded errors, handler context errors translated, the library never cancels a call still in use (cancelling finalizer kept reachable), no library timer under in-process frame writes, the status message is made safe for its wire slot (HTTP header value / proto3 string)",
         "survival of arbitrary message text through header sanitising, parity with the reference"),
 "C03": ("header typestate on every server stream type, frame kinds leave in protocol order, every call option honoured (append / range-all), -bin codec agreement between wire converters, request metadata forwarded after credentials were merged, reserved-header table, metadata setters refuse only for the stream's state, unary reply fan-out at most once, no per-call metadata state in long-lived or pooled objects",
         "byte-exactness through net/http, cross-key ordering, observability timing"),
 "C04": ("every blocking channel operation has a ctx.Done arm, context errors reach the client only through a translator, handler context descends from the caller's, handler context errors translated, re-check after receive, a server stream's Context() returns the derived context, the unary reply body is read off the caller's goroutine, a cancelling finalizer sits on an object the blocked operation keeps reachable",
         "'promptly' (timing), outcome distribution of genuine races"),
 "C05": ("guarded-by discipline, close-at-most-once arguments, no send after close, lock order/release, panic inventory with invariants, goroutine and CancelFunc inventory, a client stream that fails the call on its own cancels it, the reply is drained only after the stream was completed (order of deferred effects), the HTTP server stream does not touch its ResponseWriter after the handler returned (finished fence), one receive per handler RecvMsg, frames are flushed by the frame writer alone, the server drains the request to its end, atomic.Value typing",
         "global deadlock freedom over all interleavings, bounded time"),
 "C06": ("caller-owned messages stay on the caller's goroutine, only clones cross, receive overwrites, default cloner installed before capture, the configured cloner reaches the channel (setter plumbing), no pooled or package-level holder of messages",
         "deepness of user cloners, object-graph disjointness as a value fact"),
 "C07": ("allocation bounded by a verified length, truncation is an error, no fabricated message, no panic on any bytes",
         "total memory, 'exactly the encoded messages' as a value fact"),
 "C08": ("single-response probe with three-way discrimination, unary in-process response counting, server-side second-request probe, the nil-response predicate recognises the typed nil pointer, every successful send handed over exactly one frame, each handler kind keeps to its own framing, the unary HTTP reply is encoded only where a response is present, a handler's send is turned away only for state (never for a count of its own)",
         "code parity with the reference"),
 "C09": ("timeout header emitted iff deadline, unit table agreement with the wire spec, floor + clamp, no wrap-around, parser cannot crash, timeout computed anew for every request issue, deadline applied before the request body is awaited and carried by the context handed to the handler, the timeout header is read on every accepting path, signed 64-bit parse, no cross-call cache of header sets, no detaching context step between the caller's context and the request's",
         "run-time numeric bounds (clock, transit), negative timeouts"),
 "C10": ("value-blocking wrapper blocks all keys, handler context passes through it with only sanctioned values re-attached, metadata copied, peer and back-door, the transport stream's Method() reports the stored name",
         "library semantics of context/metadata (trusted)"),
 "C11": ("method/content-type/header gate dominates dispatch, handler at most once, codec tables, exactly one trailer frame, InvalidArgument wrap, the trailer is not held back behind a read of the request, only exact path patterns are registered",
         "mux 404, JSON≡protobuf decoding, what net/http serialises"),
 "C12": ("malformed names cannot panic, lookup dominates dispatch, finders return the matched element, client/server path agreement, per-entry closures, the configured base path and options reach the server (option plumbing), ServeHTTP hands every request untouched to the mux",
         "ServeMux matching / URL escaping for exotic base paths"),
 "C13": ("security decision dominates any I/O, credential metadata merge keeps the caller's, peer from the reply's connection",
         "Response.TLS contents, credential implementations"),
 "C14": ("forward table = documented table, fallback table over all ints, exact code in header wins, 499 rule, renderer only for errors (tables decided exhaustively), a custom error renderer reaches the handler (option plumbing), no library-made verdict before the reply's status header is read, status conversions keep all components",
         "custom renderers beyond 'header already set'"),
 "C15": ("refusal before mutation, unfiltered lookup/iteration, service-info field mapping, transports delegate, the transports keep no copy of earlier lookups",
         "reflection results for exotic handler types"),
 "C16": ("input description not written, interceptor chain order, truthful stream info, identity when nil, transports hand over their interceptor, per-entry closures, configured transport interceptors reach the dispatch (setter / option plumbing), each in-process entry point looks up its own kind of method",
         "behaviour of user interceptors"),
 "C17": ("sibling agreement on the connection argument, exactly-once transparent dispatch, construction/unwrap, the deprecated constructor alias forwards positionally",
         "behaviour of user interceptors"),
 "C18": ("Reset-before-merge, refusals are errors, adapters bottom out in a deep-copy primitive applied to the source, source only read",
         "equality/deepness of copies (codec/proto library semantics), generated↔dynamic interop"),
 "C19": ("generator stream-index discipline, templates well-formed against the data struct, checked-in stubs agree with checked-in descriptors, option table, the output file is created under the package identity the naming service reports",
         "validity of output for all descriptors, byte-identical regeneration (needs the generator to run)"),
 "C20": ("frame channel capacity <= 1 and no other queue, sends cannot complete without a slot, header frame shares the slot",
         "run-time count of completed sends, message memory"),
}

def main():
    exe = os.path.join(V, "bin", "grpchanlint")
    reg = subprocess.run([exe, "-list"], capture_output=True, text=True).stdout.split()
    checks, na = [], []
    for pid in sorted(TEXT):
        dec, notdec = TEXT[pid]
        if pid in reg:
            checks.append({
                "property_id": pid,
                "quick_cmd": f"./run quick {pid}",
                "thorough_cmd": f"./run thorough {pid}",
                "evidence_file": f"/verif/evidence/{pid}.json",
                "replay_cmd_template": f"./run quick {pid} -no-evidence  # details in {{path}}",
                "engine": "grpchanlint",
                "level_claimed": {
                    "category": "other",
                    "text": f"Static necessary-condition analysis (go/types + go/ssa over /repo's current source, no execution): decides, on every path of every anchored function and every call site, the structural clauses: {dec}. It does NOT prove the behavioural property; not decided: {notdec}.",
                    "design_ref": f"DESIGN.md §5 {pid}",
                },
                "level_note": "Trusted: go/packages, go/types, go/ssa (x/tools v0.29.0), the library axioms listed in DESIGN.md §9 (context, sync, io, channel semantics, pinned grpc v1.57.1). Every obligation the engine cannot decide counts as a violation (fails closed).",
                "technique": "custom static analysis: SSA dataflow / dominance / must-pass-through, lockset, table extraction and sibling diff, keyed by role-discovered constructs",
            })
        else:
            na.append({"property_id": pid, "reason": "no sound static rule implemented (yet) in this tree; not claimed"})
    m = {
        "version": 1,
        "setup_cmd": "cd /verif/checker && GOFLAGS=-mod=vendor GOPROXY=off GOSUMDB=off GOTOOLCHAIN=local GOWORK=off go build -o ../bin/grpchanlint ./cmd/grpchanlint",
        "hooks": {
            "guard": "verif",
            "enable": "none needed: static analysis reads /repo's source as it is; no instrumentation is compiled in",
            "baseline_off_cmd": "cd /repo && GOFLAGS=-mod=mod GOPROXY=off GOSUMDB=off go test -vet=off -count=1 ./...",
            "source_commits": [],
            "add_only": True,
        },
        "engines": [{
            "name": "grpchanlint",
            "path": "/verif/checker",
            "serves_properties": [c["property_id"] for c in checks],
            "kind_free_text": "repository-specific static analyser (go/packages + go/ssa): per-property rule files emitting obligations keyed by (rule, construct)",
        }],
        "checks": checks,
        "not_applicable": na,
        "notes": "All checks are static (no grpchan code is executed). Genuine defects found are repaired by 'fix:' commits in /repo or listed in known_findings.json; see DESIGN.md §6.",
    }
    json.dump(m, open(os.path.join(V, "MANIFEST.json"), "w"), indent=1, ensure_ascii=False)
    print("claimed:", [c["property_id"] for c in checks])
    print("not_applicable:", [n["property_id"] for n in na])

if __name__ == "__main__":
    main()
