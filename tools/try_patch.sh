#!/bin/sh
# usage: tools/try_patch.sh <patch.diff> [props]   apply to a scratch copy of /repo and print the violation lines
P="$1"; PROPS="${2:-all}"
D=$(mktemp -d /var/tmp/grpchan-try.XXXXXX)
rsync -a --exclude .git /repo/ "$D/"
(cd "$D" && git apply --whitespace=nowarn "$P") || { echo "patch does not apply"; rm -rf "$D"; exit 2; }
${GRPCHANLINT_BIN:-/verif/bin/grpchanlint} -prop "$PROPS" -repo "$D" -no-evidence -verif /verif 2>&1 | grep -E '^\S+:[0-9]+: \[|^-: \[|CHECK-ERROR'
rm -rf "$D"
