#!/usr/bin/env python3
"""Refreshes the generated tables of DESIGN.md (between the GENERATED markers):
rules as implemented (from evidence/*.json), seeded variants (from
checker/selftest/variants) and independently written mutants (from seeded/)."""
import glob, json, os, re

V = os.path.dirname(os.path.dirname(os.path.abspath(__file__)))


def rules_table():
    out = ["| rule | what it decides | instances (ok / known) |", "|---|---|---|"]
    for f in sorted(glob.glob(os.path.join(V, "evidence", "C??.json"))):
        ev = json.load(open(f))
        cov = ev["coverage"]
        per = cov.get("per_rule", {})
        for r in cov.get("rules", []):
            pr = per.get(r["id"], [0, 0, 0])
            out.append("| %s | %s | %d / %d |" % (r["id"], r["text"].replace("|", "\\|"), pr[0], pr[2]))
    return "\n".join(out)


def variants_table():
    out = ["| property | seeded variant | expectation | what the edit breaks |", "|---|---|---|---|"]
    for f in sorted(glob.glob(os.path.join(V, "checker/selftest/variants", "C??", "*.json"))):
        d = json.load(open(f))
        prop = os.path.basename(os.path.dirname(f))
        name = os.path.basename(f)[:-5]
        exp = d["expect"]
        e = "silent" if exp == "silent" else "%s %s" % (exp["rule"], exp.get("construct", ""))
        out.append("| %s | %s | %s | %s |" % (prop, name, e, d.get("why", "").replace("|", "\\|")))
    return "\n".join(out)


def seeded_table():
    out = ["| id | property | change (by an independent sub-agent) | needs to manifest | reported by |", "|---|---|---|---|---|"]
    for d in sorted(glob.glob(os.path.join(V, "seeded", "*"))):
        mp = os.path.join(d, "meta.json")
        if not os.path.exists(mp):
            continue
        m = json.load(open(mp))
        det = m.get("detected_by", {})
        rules = set()
        for k, v in det.items():
            for l in v:
                mm = re.search(r"\[(C\d\d/[RT]\d+)\]", l)
                if mm:
                    rules.add(mm.group(1))
        cur = m.get("caught_by_now") or ", ".join(sorted(rules)) or "(added after import — see check-all)"
        out.append("| %s | %s | %s | %s | %s |" % (os.path.basename(d), m.get("property"), m.get("summary", "")[:260].replace("|", "\\|").replace("\n", " "),
                                                   m.get("needs_to_manifest", "")[:200].replace("|", "\\|").replace("\n", " "), cur))
    return "\n".join(out)


def main():
    p = os.path.join(V, "DESIGN.md")
    s = open(p).read()
    for tag, fn in (("RULES", rules_table), ("VARIANTS", variants_table), ("SEEDED", seeded_table)):
        a, b = "<!-- GENERATED:%s -->" % tag, "<!-- /GENERATED:%s -->" % tag
        if a in s and b in s:
            i, j = s.index(a) + len(a), s.index(b)
            s = s[:i] + "\n" + fn() + "\n" + s[j:]
    open(p, "w").write(s)


if __name__ == "__main__":
    main()
