#!/usr/bin/env python3
"""Behaviour-preserving refactorings written by independent sub-agents: the
checker must stay SILENT on every one of them, for every property.

  tools/refactors.py import <dir> <id>     # confirm (applies, builds, suite passes), run all checks, copy to /verif/refactors/<id>/
  tools/refactors.py check [Cxx|all] [out.json]   # apply each kept refactoring to a scratch copy of the CURRENT /repo working tree and run the checks

A refactoring dir holds patch.diff and meta.json ({"summary","kind","why_preserving",...}).
A kept refactoring whose patch no longer applies (the tree moved on) is SKIPPED and listed.
Exit status of check: 0 all silent, 2 otherwise (CHECK-ERROR: an alarm on code where the property holds)."""
import concurrent.futures as cf, glob, json, os, shutil, subprocess, sys, tempfile

V = os.path.dirname(os.path.dirname(os.path.abspath(__file__)))
ENV = dict(os.environ, GOFLAGS="-mod=mod", GOPROXY="off", GOSUMDB="off", GOTOOLCHAIN="local")
ENV.pop("GOWORK", None)
BIN = os.environ.get("GRPCHANLINT_BIN", os.path.join(V, "bin/grpchanlint"))


def sh(cmd, cwd, timeout=1200):
    p = subprocess.run(cmd, cwd=cwd, shell=True, env=ENV, capture_output=True, text=True, timeout=timeout)
    return p.returncode, p.stdout + p.stderr


def scratch_copy():
    repo = os.environ.get("VERIF_REPO", "/repo")
    d = tempfile.mkdtemp(prefix="grpchan-refactor.", dir=os.environ.get("TMPDIR", "/var/tmp"))
    subprocess.check_call(["rsync", "-a", "--exclude", ".git", repo.rstrip("/") + "/", d + "/"])
    return d


def apply_patch(patch, wt):
    # the scratch copy has no .git: git apply works on plain directories too
    rc, out = sh("git apply --whitespace=nowarn %s" % patch, wt)
    return rc == 0, out


def run_checks(repo, props):
    r = subprocess.run([BIN, "-prop", ",".join(props), "-repo", repo, "-no-evidence", "-verif", V], capture_output=True, text=True)
    out = r.stdout + r.stderr
    lines = [l for l in out.splitlines() if ": [" in l and "] " in l]
    if r.returncode == 2:
        return ["CHECK-ERROR: " + (out.strip().splitlines()[-1][:300] if out.strip() else "exit 2")]
    if r.returncode == 1:
        return lines or ["exit 1 without a violation line"]
    return []


def props_all():
    return subprocess.run([BIN, "-list"], capture_output=True, text=True).stdout.split()


def do_import(src, rid):
    patch = os.path.abspath(os.path.join(src, "patch.diff"))
    meta = json.load(open(os.path.join(src, "meta.json")))
    wt = scratch_copy()
    res = {"id": rid}
    try:
        ok, out = apply_patch(patch, wt)
        res["applies"] = ok
        if not ok:
            res["apply_out"] = out[-400:]
            print(json.dumps(res, indent=1))
            return 1
        rc, out = sh("go build ./... && go vet ./... 2>&1 | tail -3; go build ./...", wt)
        res["builds"] = rc == 0
        rc, out = sh("go test -count=1 ./... 2>&1 | tail -12", wt)
        res["suite_passes"] = rc == 0 and "FAIL" not in out
        if not res["suite_passes"]:
            res["suite_out"] = out[-600:]
        res["alarms"] = run_checks(wt, props_all())
    finally:
        shutil.rmtree(wt, ignore_errors=True)
    print(json.dumps(res, indent=1))
    if res.get("builds") and res.get("suite_passes"):
        dst = os.path.join(V, "refactors", rid)
        os.makedirs(dst, exist_ok=True)
        shutil.copy(patch, os.path.join(dst, "patch.diff"))
        meta["confirmed"] = {k: res[k] for k in ("applies", "builds", "suite_passes")}
        meta["alarms_at_import"] = res["alarms"]
        json.dump(meta, open(os.path.join(dst, "meta.json"), "w"), indent=1)
        print("imported as", dst)
    return 0


def check_one(d, props):
    rid = os.path.basename(d.rstrip("/"))
    wt = scratch_copy()
    try:
        ok, out = apply_patch(os.path.join(d, "patch.diff"), wt)
        if not ok:
            return rid, "SKIP", ["patch no longer applies (tree moved on)"]
        al = run_checks(wt, props)
        meta = json.load(open(os.path.join(d, "meta.json")))
        if al and meta.get("expect") == "known-false-alarm":
            # a documented limitation of the checker (DESIGN.md §10.7): reported, does not fail the self-test
            return rid, "KNOWN-FA", al
        if not al and meta.get("expect") == "known-false-alarm":
            return rid, "SILENT", ["(listed as a known false alarm but silent now: update meta.json)"]
        return rid, ("SILENT" if not al else "ALARM"), al
    finally:
        shutil.rmtree(wt, ignore_errors=True)


def do_check(prop, outp):
    props = props_all() if prop in ("all", "") else [prop]
    dirs = sorted(glob.glob(os.path.join(V, "refactors", "*/")))
    bad, rows = 0, []
    with cf.ThreadPoolExecutor(max_workers=int(os.environ.get("VERIF_JOBS", "12"))) as ex:
        for rid, st, al in ex.map(lambda d: check_one(d, props), dirs):
            print("refactor %-28s %-7s %s" % (rid, st, "; ".join(al)[:400]))
            rows.append({"refactor": rid, "status": st, "alarms": al[:5]})
            if st == "ALARM":
                bad += 1
    if outp:
        json.dump(rows, open(outp, "w"))
    print("refactors: %d applied for %s, %d raised an alarm" % (len(dirs), prop or "all", bad))
    return 2 if bad else 0


def main():
    if len(sys.argv) >= 4 and sys.argv[1] == "import":
        return do_import(sys.argv[2], sys.argv[3])
    if len(sys.argv) >= 2 and sys.argv[1] == "check":
        return do_check(sys.argv[2] if len(sys.argv) > 2 else "all", sys.argv[3] if len(sys.argv) > 3 else "")
    print(__doc__)
    return 2


if __name__ == "__main__":
    sys.exit(main())
