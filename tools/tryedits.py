#!/usr/bin/env python3
"""Development aid: try hand-written edits against ALL properties.

  tools/tryedits.py <experiments.py>

experiments.py defines EXP = [(name, [(file, old, new), ...]), ...].  Each experiment is applied to a scratch copy
of /repo (never /repo itself), `go build ./...` and the repo's suite are run when --tests is given, and the rule ids
that fire are printed.  Nothing is kept."""
import concurrent.futures as cf, os, re, runpy, shutil, subprocess, sys, tempfile

V = os.path.dirname(os.path.dirname(os.path.abspath(__file__)))
ENV = dict(os.environ, GOFLAGS="-mod=mod", GOPROXY="off", GOSUMDB="off", GOTOOLCHAIN="local")
ENV.pop("GOWORK", None)


def one(name, edits, tests):
    d = tempfile.mkdtemp(prefix="grpchan-try.", dir="/var/tmp")
    try:
        subprocess.check_call(["rsync", "-a", "--exclude", ".git", "/repo/", d + "/"])
        for f, old, new in edits:
            p = os.path.join(d, f)
            s = open(p).read()
            if old not in s:
                return name, "OLD-NOT-FOUND " + f, []
            open(p, "w").write(s.replace(old, new, 1))
        t = ""
        if tests:
            r = subprocess.run("go build ./... && go test -count=1 ./... 2>&1 | tail -15", shell=True, cwd=d, env=ENV, capture_output=True, text=True)
            bad = [l for l in (r.stdout + r.stderr).splitlines() if l.startswith("FAIL") or l.startswith("---") or "cannot" in l or ".go:" in l]
            t = "suite:" + ("FAIL " + " | ".join(bad[:4]) if (r.returncode != 0 or bad) else "pass")
        r = subprocess.run([os.path.join(V, "bin/grpchanlint"), "-prop", "all", "-repo", d, "-no-evidence", "-verif", V], capture_output=True, text=True)
        out = r.stdout + r.stderr
        lines = [l.replace(d + "/", "") for l in out.splitlines() if re.search(r": \[C\d\d/[RT]\d+\] ", l) or "CHECK-ERROR" in l]
        return name, t + " rc=%d" % r.returncode, lines
    finally:
        shutil.rmtree(d, ignore_errors=True)


def main():
    tests = "--tests" in sys.argv
    exp = runpy.run_path([a for a in sys.argv[1:] if not a.startswith("--")][0])["EXP"]
    with cf.ThreadPoolExecutor(8) as ex:
        for name, st, lines in ex.map(lambda e: one(e[0], e[1], tests), exp):
            rules = sorted(set(re.search(r"\[(C\d\d/[RT]\d+)\]", l).group(1) for l in lines if "[C" in l))
            print("== %-40s %s  fired: %s" % (name, st, " ".join(rules) or "NOTHING"))
            for l in lines[:3]:
                print("     " + l[:230])


if __name__ == "__main__":
    main()
