#!/usr/bin/env python3
"""Source of the seeded variants: writes checker/selftest/variants/<Cxx>/<name>.json.
Keeping them here (one Python literal each) makes multi-line edits readable."""
import json, os, shutil

V = os.path.dirname(os.path.dirname(os.path.abspath(__file__)))
OUT = os.path.join(V, "checker/selftest/variants")

VARIANTS = []


def v(prop, name, file, old, new, rule=None, construct="", why="", silent=False, edits=None, patch=None):
    d = {"why": why}
    if patch:
        d["patch"] = patch
    if edits:
        d["edits"] = edits
    else:
        d.update({"file": file, "old": old, "new": new})
    d["property"] = prop
    d["expect"] = "silent" if silent else {"property": prop, "rule": rule, "construct": construct}
    VARIANTS.append((prop, name, d))


# ------------------------------------------------------------------ C07
v("C07", "d2-no-client-bound", "httpgrpc/client.go",
  """		if sz > maxMessageSize {
			rErr = status.Errorf(codes.ResourceExhausted, "bad size preface: indicated size is too large: %d", sz)
			return
		}
""", "", "R1", "bounded", "pre-fix D2: client allocates whatever the 4-byte prefix says")
v("C07", "no-max-check-readProtoMessage", "httpgrpc/io.go",
  """	} else if sz > maxMessageSize {
		return fmt.Errorf("bad size preface: indicated size is too large: %d", sz)
	}""", "	}", "R1", "bounded", "limit test removed in readProtoMessage")
v("C07", "bound-maxint32", "httpgrpc/io.go",
  "} else if sz > maxMessageSize {", "} else if sz > math.MaxInt32-1 {", "R1", "bounded", "limit replaced by ~MaxInt32")
v("C07", "no-sign-check", "httpgrpc/io.go",
  """	if sz < 0 {
		return fmt.Errorf("bad size preface: size cannot be negative: %d", sz)
	} else if sz > maxMessageSize {""", "	if sz > maxMessageSize {", "R1", "non-negative", "negative size reaches make")
v("C07", "server-payload-eof-raw", "httpgrpc/server.go",
  """	if err == io.EOF {
		return io.ErrUnexpectedEOF
	} else if err != nil {
		return err
	}

	if !s.respStream {""", """	if err != nil {
		return err
	}

	if !s.respStream {""", "R2", "payload-eof", "server: truncated payload reported as io.EOF (clean half-close)")
v("C07", "deliver-before-check", "httpgrpc/client.go",
  """		_, rErr = io.ReadAtLeast(reply.Body, msg, int(sz))
		if rErr != nil {
			if rErr == io.EOF {
				rErr = io.ErrUnexpectedEOF
			}
			return
		}
""", """		_, rErr = io.ReadAtLeast(reply.Body, msg, int(sz))
		if rErr != nil && rErr != io.EOF {
			return
		}
""", "R3", "deliver-after-ok", "buffer delivered although the read ended early with EOF")
v("C07", "short-read", "httpgrpc/io.go",
  "_, err := io.ReadAtLeast(in, msg, int(sz))", "_, err := io.ReadAtLeast(in, msg, 1)", "R3", "full-read", "min < len: short reads accepted")
v("C07", "body-read-direct", "httpgrpc/io.go",
  "_, err := io.ReadAtLeast(in, msg, int(sz))", "_, err := in.Read(msg)", "R3", "full-read", "single Read instead of full read")
v("C07", "readfull-equivalent", "httpgrpc/io.go",
  "_, err := io.ReadAtLeast(in, msg, int(sz))", "_, err := io.ReadFull(in, msg)", silent=True, why="behaviour-preserving: ReadFull == ReadAtLeast(len)")
v("C07", "trailer-prefix-unguarded", "httpgrpc/client.go",
  "if strings.HasPrefix(strings.ToLower(k), trailerPrefix) {", "if strings.Contains(strings.ToLower(k), \"trailer\") {", "R4", "slice", "slice k[15:] no longer guarded by HasPrefix")

# ------------------------------------------------------------------ C09
v("C09", "d10-no-overflow-guard", "httpgrpc/server.go",
  """				d := time.Duration(math.MaxInt64)
				if timeoutVal <= math.MaxInt64/int64(unit) {
					d = time.Duration(timeoutVal) * unit
				}
				ctx, cancel = context.WithTimeout(ctx, d)""",
  """				_ = math.MaxInt64
				ctx, cancel = context.WithTimeout(ctx, time.Duration(timeoutVal)*unit)""", "R4", "overflow-guard", "pre-fix D10")
v("C09", "swap-M-m", "httpgrpc/server.go",
  """			case 'M':
				unit = time.Minute""", """			case 'M':
				unit = time.Millisecond""", "R2", "unit:M", "minutes parsed as milliseconds; tests only send 'm'")
v("C09", "drop-unit-u", "httpgrpc/server.go",
  """			case 'u':
				unit = time.Microsecond
""", "", "R2", "unit:u", "unit u no longer accepted")
v("C09", "no-clamp", "httpgrpc/client.go",
  """		if millis <= 0 {
			millis = 1
		}
""", "", "R3", "clamp", "0m sent for sub-millisecond remaining time")
v("C09", "unconditional-header", "httpgrpc/client.go",
  """	if deadline, ok := ctx.Deadline(); ok {
		timeout := time.Until(deadline)""", """	if deadline, _ := ctx.Deadline(); true {
		timeout := time.Until(deadline)""", "R1", "emit-iff-deadline", "timeout header sent without a deadline")
v("C09", "client-seconds-format", "httpgrpc/client.go",
  'h.Set("GRPC-Timeout", fmt.Sprintf("%dm", millis))', 'h.Set("GRPC-Timeout", fmt.Sprintf("%dS", millis))', "R2", "unit-agreement", "client writes millis with suffix S: deadline extended 1000x")
v("C09", "ceil-division", "httpgrpc/client.go",
  "millis := int64(timeout / time.Millisecond)", "millis := int64((timeout + time.Millisecond) / time.Millisecond)", "R3", "floor", "rounds up: handler deadline later than caller's")
v("C09", "bad-timeout-is-error", "httpgrpc/server.go",
  "if timeoutVal, err := strconv.ParseInt(timeout[:len(timeout)-1], 10, 64); err == nil {",
  "timeoutVal, err := strconv.ParseInt(timeout[:len(timeout)-1], 10, 64)\n\t\tif err != nil {\n\t\t\treturn parent, cancel, err\n\t\t}\n\t\t{", "R5", "bad-timeout", "malformed timeout rejected with 400 instead of served without deadline")
v("C09", "index-unguarded", "httpgrpc/server.go",
  'if timeout != "" {', 'if timeout != "x" {', "R5", "bounds", "timeout[len-1] on empty string")

# ------------------------------------------------------------------ C12
v("C12", "d8-invoke-no-len-check", "inprocgrpc/in_process.go",
  """	strs := strings.SplitN(method[1:], "/", 2)
	if len(strs) != 2 {
		return status.Errorf(codes.Unimplemented, "malformed method name: %q", method)
	}
	serviceName := strs[0]""", """	strs := strings.SplitN(method[1:], "/", 2)
	serviceName := strs[0]""", "R1", "SplitN", "pre-fix D8 (Invoke)")
v("C12", "d8-newstream-empty", "inprocgrpc/in_process.go",
  """func (c *Channel) NewStream(ctx context.Context, desc *grpc.StreamDesc, method string, opts ...grpc.CallOption) (grpc.ClientStream, error) {
	copts := internal.GetCallOptions(opts)
	copts.SetPeer(&inprocessPeer)

	if method == "" || method[0] != '/' {""", """func (c *Channel) NewStream(ctx context.Context, desc *grpc.StreamDesc, method string, opts ...grpc.CallOption) (grpc.ClientStream, error) {
	copts := internal.GetCallOptions(opts)
	copts.SetPeer(&inprocessPeer)

	if method[0] != '/' {""", "R1", "method[0]", "pre-fix D8 (NewStream, empty name)")
v("C12", "no-md-nil-check", "inprocgrpc/in_process.go",
  """	md := internal.FindUnaryMethod(methodName, sd.Methods)
	if md == nil {
		// method name not found
		return status.Errorf(codes.Unimplemented, "method %s/%s not implemented", serviceName, methodName)
	}
""", """	md := internal.FindUnaryMethod(methodName, sd.Methods)
""", "R2", "method-found", "nil method desc dereferenced / dispatched")
v("C12", "notfound-wrong-code", "inprocgrpc/in_process.go",
  'return nil, status.Errorf(codes.Unimplemented, "service %s not implemented", serviceName)',
  'return nil, status.Errorf(codes.NotFound, "service %s not implemented", serviceName)', "R2", "service-not-found", "wrong code for unknown service")
v("C12", "finder-returns-first", "internal/misc.go",
  """		if methods[i].StreamName == methodName {
			return &methods[i]""", """		if methods[i].StreamName == methodName {
			return &methods[0]""", "R3", "returns-match", "finder returns the first entry")
v("C12", "finder-prefix-match", "internal/misc.go",
  "if methods[i].MethodName == methodName {", "if len(methods[i].MethodName) >= len(methodName) && methods[i].MethodName[:len(methodName)] == methodName {", "R3", "returns-match", "prefix match instead of equality")
v("C12", "handleservices-concat", "httpgrpc/server.go",
  'mux(path.Join(basePath, fmt.Sprintf("%s/%s", desc.ServiceName, md.MethodName)), h)',
  'mux(basePath+fmt.Sprintf("%s/%s", desc.ServiceName, md.MethodName), h)', "R4", "pattern-is-join", "string concat works only for base paths ending in /")
v("C12", "client-path-concat", "httpgrpc/client.go",
  """	reqUrl := *ch.BaseURL
	reqUrl.Path = path.Join(reqUrl.Path, methodName)
	reqUrlStr := reqUrl.String()
	ctx, err := internal.ApplyPerRPCCreds(ctx, copts, reqUrlStr, reqUrl.Scheme == "https")
	if err != nil {
		return nil, err
	}""", """	reqUrl := *ch.BaseURL
	reqUrl.Path = reqUrl.Path + methodName
	reqUrlStr := reqUrl.String()
	ctx, err := internal.ApplyPerRPCCreds(ctx, copts, reqUrlStr, reqUrl.Scheme == "https")
	if err != nil {
		return nil, err
	}""", "R4", "path-site", "client stream path not joined")
v("C12", "wrong-entry-name", "httpgrpc/server.go",
  """		sd := desc.Streams[i]
		h := handleStream(svr, desc.ServiceName, &sd, s.streamInt, &s.opts)
		s.mux.HandleFunc(path.Join(s.basePath, fmt.Sprintf("%s/%s", desc.ServiceName, sd.StreamName)), h)""",
  """		sd := desc.Streams[i]
		h := handleStream(svr, desc.ServiceName, &sd, s.streamInt, &s.opts)
		s.mux.HandleFunc(path.Join(s.basePath, fmt.Sprintf("%s/%s", desc.ServiceName, desc.Streams[0].StreamName)), h)""", "R4", "path", "every stream registered under the first stream's name")
v("C12", "capture-loop-var", "httpgrpc/server.go",
  """	for i := range desc.Methods {
		md := desc.Methods[i]
		h := handleMethod(svr, desc.ServiceName, &md, s.unaryInt, &s.opts)
		s.mux.HandleFunc(path.Join(s.basePath, fmt.Sprintf("%s/%s", desc.ServiceName, md.MethodName)), h)
	}""", """	var md grpc.MethodDesc
	for i := range desc.Methods {
		md = desc.Methods[i]
		name := md.MethodName
		s.mux.HandleFunc(path.Join(s.basePath, fmt.Sprintf("%s/%s", desc.ServiceName, name)), func(w http.ResponseWriter, r *http.Request) {
			handleMethod(svr, desc.ServiceName, &md, s.unaryInt, &s.opts)(w, r)
		})
	}""", "R5", "captures", "closure captures a variable re-assigned per iteration")

# ------------------------------------------------------------------ C14
v("C14", "aborted-412", "httpgrpc/codes.go",
  """	case codes.Aborted:
		return http.StatusConflict""", """	case codes.Aborted:
		return http.StatusPreconditionFailed""", "R1", "row:Aborted", "table row differs from the documented table")
v("C14", "unknown-200", "httpgrpc/codes.go",
  """	case codes.Unknown:
		return http.StatusInternalServerError""", """	case codes.Unknown:
		return http.StatusOK""", "R1", "row:Unknown", "error code rendered as 200")
v("C14", "redirect-ok", "httpgrpc/codes.go",
  "case stat >= 200 && stat < 300:", "case stat >= 200 && stat < 400:", "R2", "ok-iff-2xx", "3xx treated as OK")
v("C14", "default-ok", "httpgrpc/codes.go",
  """	default:
		// 1XX (not supported by GRPC), 3xx/redirects (not supported by GRPC), other codes
		return codes.Unknown""", """	default:
		// 1XX (not supported by GRPC), 3xx/redirects (not supported by GRPC), other codes
		return codes.OK""", "R2", "ok-iff-2xx", "1xx/3xx treated as OK")
v("C14", "header-carries-http-status", "httpgrpc/server.go",
  'w.Header().Set("X-GRPC-Status", fmt.Sprintf("%d:%s", statProto.Code, statProto.Message))',
  'w.Header().Set("X-GRPC-Status", fmt.Sprintf("%d:%s", codeFromHttpStatus(httpStatusFromCode(st.Code())), statProto.Message))', "R3", "header-value", "approximated code in header")
v("C14", "header-after-renderer", "httpgrpc/server.go",
  """			statProto := st.Proto()
			w.Header().Set("X-GRPC-Status", fmt.Sprintf("%d:%s", statProto.Code, statProto.Message))
			for _, d := range statProto.Details {""", """			statProto := st.Proto()
			if len(statProto.Details) > 0 {
				w.Header().Set("X-GRPC-Status", fmt.Sprintf("%d:%s", statProto.Code, statProto.Message))
			}
			for _, d := range statProto.Details {""", "R3", "header-before-renderer", "status header only when details present")
v("C14", "client-prefers-http", "httpgrpc/client.go",
  """		if c, err := strconv.ParseInt(codeStrs[0], 10, 32); err == nil {
			code = codes.Code(c)
		}""", """		if c, err := strconv.ParseInt(codeStrs[0], 10, 32); err == nil && code == codes.Unknown {
			code = codes.Code(c)
		}""", "R3", "parsed-wins", "header code used only when the HTTP-derived code is Unknown")
v("C14", "renderer-gets-derived-ctx", "httpgrpc/server.go",
  "errHandler(r.Context(), st, w)", "errHandler(ctx, st, w)", "R4", "reqCtx", "server-side timeout rendered as 499")
v("C14", "499-without-ctx-check", "httpgrpc/server.go",
  "if (st.Code() == codes.Canceled || st.Code() == codes.DeadlineExceeded) && ctx.Err() != nil {",
  "if st.Code() == codes.Canceled || st.Code() == codes.DeadlineExceeded {", "R4", "499-needs-ctx-err", "499 for server-side deadline")
v("C14", "no-ok-rewrite", "httpgrpc/server.go",
  """			st, _ := status.FromError(internal.TranslateContextError(err))
			if st.Code() == codes.OK {
				// preserve all error details, but rewrite the code since we don't want
				// to send back a non-error status when we know an error occured
				stpb := st.Proto()
				stpb.Code = int32(codes.Internal)
				st = status.FromProto(stpb)
			}
			statProto := st.Proto()
			w.Header()""", """			st, _ := status.FromError(internal.TranslateContextError(err))
			statProto := st.Proto()
			w.Header()""", "R5", "ok-rewrite", "error with code OK rendered as success")

# ------------------------------------------------------------------ C17
v("C17", "d1-no-unwrap", "intercept.go",
  "cc, _ := unwrap(intch.ch).(*grpc.ClientConn)\n\treturn intch.streamInt(", "cc, _ := intch.ch.(*grpc.ClientConn)\n\treturn intch.streamInt(", "R1", "cc-arg", "pre-fix D1")
v("C17", "opts-dropped", "intercept.go",
  "return intch.ch.NewStream(ctx, desc, methodName, opts...)\n}\n\nvar _ Channel", "return intch.ch.NewStream(ctx, desc, methodName)\n}\n\nvar _ Channel", "R2", "continuation", "streamer drops call options")
v("C17", "unwrap-returns-root", "intercept.go",
  "func (intch *interceptedChannel) Unwrap() grpc.ClientConnInterface {\n\treturn intch.ch\n}", "func (intch *interceptedChannel) Unwrap() grpc.ClientConnInterface {\n\treturn unwrap(intch.ch)\n}", "R3", "Unwrap", "Unwrap skips intermediate layers")
v("C17", "unary-called-twice", "intercept.go",
  """func (intch *interceptedChannel) unaryInvoker(ctx context.Context, methodName string, req, resp interface{}, cc *grpc.ClientConn, opts ...grpc.CallOption) error {
	return intch.ch.Invoke(ctx, methodName, req, resp, opts...)""", """func (intch *interceptedChannel) unaryInvoker(ctx context.Context, methodName string, req, resp interface{}, cc *grpc.ClientConn, opts ...grpc.CallOption) error {
	if err := intch.ch.Invoke(ctx, methodName, req, resp, opts...); err == nil {
		return nil
	}
	return intch.ch.Invoke(ctx, methodName, req, resp, opts...)""", "R2", "continuation", "silent retry: call seen twice downstream")
v("C17", "constructor-one-nil", "intercept.go",
  "func InterceptClientConn(ch grpc.ClientConnInterface, unaryInt grpc.UnaryClientInterceptor, streamInt grpc.StreamClientInterceptor) grpc.ClientConnInterface {\n\tif unaryInt == nil && streamInt == nil {",
  "func InterceptClientConn(ch grpc.ClientConnInterface, unaryInt grpc.UnaryClientInterceptor, streamInt grpc.StreamClientInterceptor) grpc.ClientConnInterface {\n\tif unaryInt == nil || streamInt == nil {", "R3", "identity", "stream interceptor dropped when unary one is nil")

# ------------------------------------------------------------------ C13
v("C13", "d11-request-tls", "httpgrpc/client.go",
  "copts.SetPeer(getPeer(ch.BaseURL, reply.TLS))", "copts.SetPeer(getPeer(ch.BaseURL, r.TLS))", "R3", "peer-tls", "pre-fix D11")
v("C13", "peer-nil-tls", "httpgrpc/client.go",
  "cs.copts.SetPeer(getPeer(cs.baseUrl, reply.TLS))", "cs.copts.SetPeer(getPeer(cs.baseUrl, nil))", "R3", "peer-tls", "stream peer without TLS info")
v("C13", "secure-const-true", "httpgrpc/client.go",
  """	ctx, err := internal.ApplyPerRPCCreds(ctx, copts, reqUrlStr, reqUrl.Scheme == "https")
	if err != nil {
		return nil, err
	}""", """	ctx, err := internal.ApplyPerRPCCreds(ctx, copts, reqUrlStr, true)
	if err != nil {
		return nil, err
	}""", "R1", "secure-arg", "streaming calls always claim a secure transport")
v("C13", "secure-on-base-url", "httpgrpc/client.go",
  """	ctx, err := internal.ApplyPerRPCCreds(ctx, copts, reqUrlStr, reqUrl.Scheme == "https")
	if err != nil {
		return err
	}""", """	ctx, err := internal.ApplyPerRPCCreds(ctx, copts, reqUrlStr, reqUrl.Scheme != "http")
	if err != nil {
		return err
	}""", "R1", "secure-arg", "any scheme other than http counts as secure")
v("C13", "creds-error-ignored", "httpgrpc/client.go",
  """	ctx, err := internal.ApplyPerRPCCreds(ctx, copts, reqUrlStr, reqUrl.Scheme == "https")
	if err != nil {
		return nil, err
	}

	ctx, cancel := context.WithCancel(ctx)""", """	credCtx, err := internal.ApplyPerRPCCreds(ctx, copts, reqUrlStr, reqUrl.Scheme == "https")
	if err == nil {
		ctx = credCtx
	}

	ctx, cancel := context.WithCancel(ctx)""", "R1", "creds-before-io", "stream request issued although the credentials step refused")
v("C13", "require-check-inverted", "internal/call_options.go",
  "if copts.Creds.RequireTransportSecurity() && !isChannelSecure {", "if !copts.Creds.RequireTransportSecurity() && !isChannelSecure {", "R1", "query-only-if-allowed", "security requirement inverted")
v("C13", "merge-replaces-caller-md", "internal/call_options.go",
  "reqHeaders = metadata.Join(reqHeaders, metadata.New(md))", "reqHeaders = metadata.New(md)", "R2", "join-caller-first", "credential metadata replaces the caller's")
v("C13", "merge-creds-first", "internal/call_options.go",
  "reqHeaders = metadata.Join(reqHeaders, metadata.New(md))", "reqHeaders = metadata.Join(metadata.New(md), reqHeaders)", "R2", "join-caller-first", "credential values come before the caller's for shared keys")
v("C13", "headers-from-pre-creds-ctx", "httpgrpc/client.go",
  """	ctx, err := internal.ApplyPerRPCCreds(ctx, copts, reqUrlStr, reqUrl.Scheme == "https")
	if err != nil {
		return err
	}
	h := headersFromContext(ctx)""", """	credCtx, err := internal.ApplyPerRPCCreds(ctx, copts, reqUrlStr, reqUrl.Scheme == "https")
	if err != nil {
		return err
	}
	_ = credCtx
	h := headersFromContext(ctx)""", "R2", "metadata-from-creds-ctx", "credential metadata never sent on unary calls")
v("C13", "server-no-peer-stream", "httpgrpc/server.go",
  """		ctx := r.Context()
		if p := peerFromRequest(r); p != nil {
			ctx = peer.NewContext(ctx, p)
		}
		defer drainAndClose(r.Body)
		if r.Method != "POST" {
			w.Header().Set("Allow", "POST")
			writeError(w, http.StatusMethodNotAllowed)
			return
		}

		contentType := r.Header.Get("Content-Type")
		codec := getStreamingCodec(contentType)""", """		ctx := r.Context()
		defer drainAndClose(r.Body)
		if r.Method != "POST" {
			w.Header().Set("Allow", "POST")
			writeError(w, http.StatusMethodNotAllowed)
			return
		}

		contentType := r.Header.Get("Content-Type")
		codec := getStreamingCodec(contentType)""", "R3", "peer-attached", "streaming handlers see no peer")
v("C13", "server-authinfo-always-nil", "httpgrpc/server.go",
  """	if r.TLS != nil {
		pr.AuthInfo = credentials.TLSInfo{State: *r.TLS}
	}
	return &pr""", """	_ = credentials.TLSInfo{}
	return &pr""", "R3", "authinfo", "server peer never reports TLS")

v("C17", "inline-invoker-equivalent", "intercept.go",
  """	return intch.unaryInt(ctx, methodName, req, resp, cc, intch.unaryInvoker, opts...)
}""", """	invoker := func(ctx context.Context, method string, req, resp interface{}, _ *grpc.ClientConn, callOpts ...grpc.CallOption) error {
		return intch.ch.Invoke(ctx, method, req, resp, callOpts...)
	}
	return intch.unaryInt(ctx, methodName, req, resp, cc, invoker, opts...)
}""", silent=True, why="behaviour-preserving: invoker as a function literal forwarding its own options")
v("C17", "inline-invoker-wrong-opts", "intercept.go",
  """	return intch.unaryInt(ctx, methodName, req, resp, cc, intch.unaryInvoker, opts...)
}""", """	invoker := func(ctx context.Context, method string, req, resp interface{}, _ *grpc.ClientConn, callOpts ...grpc.CallOption) error {
		return intch.ch.Invoke(ctx, method, req, resp, opts...)
	}
	return intch.unaryInt(ctx, methodName, req, resp, cc, invoker, opts...)
}""", "R2", "continuation", "sub-agent mutant C17-invoker-opts: literal forwards the outer opts, dropping the interceptor's")

# ------------------------------------------------------------------ C08
v("C08", "d13-any-error-is-success", "inprocgrpc/in_process.go",
  """	if err != io.EOF {
		// if server sent a failure after the single message, the failure takes precedence
		return err
	}
	return nil
}""", """	return nil
}""", "R1", "only-eof-is-success", "pre-fix D13")
v("C08", "no-probe-inproc", "inprocgrpc/in_process.go",
  "	return s.recvMsgLocked(m, !s.responseStream)", "	return s.recvMsgLocked(m, false)", "R1", "probe-after-decode", "RecvMsg never probes for a second response")
v("C08", "flag-from-clientstreams", "inprocgrpc/in_process.go",
  "		responseStream: desc.ServerStreams,", "		responseStream: desc.ClientStreams,", "R1", "flag", "flag wired from the wrong descriptor field; bidi/unary agree so tests pass")
v("C08", "http-drop-second-message-arm", "httpgrpc/client.go",
  """				if ok {
					// server tried to send >1 message!
					cs.rMu.Lock()
					defer cs.rMu.Unlock()
					if cs.rErr == nil {
						cs.rErr = status.Error(codes.Internal, "method should return 1 response message but server sent >1")
						cs.done = true
						// we won't be reading from the channel anymore, so we must
						// cancel the context so that doHttpCall doesn't hang trying
						// to write to channel
						cs.cancel()
					}
					return cs.rErr
				}
""", """				if ok {
					cs.cancel()
					return nil
				}
""", "R1", "second-message-is-error", "second response silently dropped")
v("C08", "http-failure-after-response-ignored", "httpgrpc/client.go",
  """				if err != io.EOF {
					return err
				}
			}
		}
		return nil""", """				_ = err
			}
		}
		return nil""", "R1", "only-eof-is-success", "HTTP: failure after the single response reported as success")
v("C08", "http-flag-from-clientstreams", "httpgrpc/client.go",
  "cs := newClientStream(ctx, cancel, w, desc.ServerStreams, copts, ch.BaseURL)", "cs := newClientStream(ctx, cancel, w, desc.ClientStreams, copts, ch.BaseURL)", "R1", "flag", "flag wired from ClientStreams")
v("C08", "unary-no-gotresponse-test", "inprocgrpc/in_process.go",
  """				if gotResponse {
					return status.Error(codes.Internal, "server sent unexpected response message")
				}
				gotResponse = true""", """				gotResponse = true""", "R2", "second-response-test", "second response overwrites the first")
v("C08", "d4-closed-arm-eof", "inprocgrpc/in_process.go",
  """				if !gotResponse {
					return status.Error(codes.Internal, "server sent neither response message nor error")
				}
				return nil""", """				if !gotResponse {
					return io.EOF
				}
				return nil""", "R2", "closed-without-response", "bare io.EOF for a missing response")
v("C08", "unary-nil-response-unchecked", "inprocgrpc/in_process.go",
  """			if isNil(v) {
				err = status.Errorf(codes.Internal, "handler returned neither error nor response message")
			} else {
				_ = writeMessage(ctx, nil, ch, frame{data: v})
			}""", """			_ = writeMessage(ctx, nil, ch, frame{data: v})""", "R2", "nil-response-check", "nil response sent as a (kind-unknown) frame")
v("C08", "server-second-request-accepted", "httpgrpc/server.go",
  """		_, err = readSizePreface(s.r.Body)
		if err != io.EOF {
			// client tried to send >1 message!
			return status.Error(codes.InvalidArgument, "method accepts 1 request message but client sent >1")
		}""", """		_, err = readSizePreface(s.r.Body)
		if err == nil {
			// client tried to send >1 message!
			s.recvd++
		}""", "R3", "second-request-is-error", "second request message tolerated")
v("C08", "server-flag-serverstreams", "httpgrpc/server.go",
  "str := &serverStream{r: r, w: w, respStream: desc.ClientStreams, codec: codec}", "str := &serverStream{r: r, w: w, respStream: desc.ServerStreams, codec: codec}", "R3", "flag", "server flag from the wrong field")
v("C08", "server-later-calls-read", "httpgrpc/server.go",
  """	if !s.respStream && s.recvd > 0 {
		return io.EOF
	}
""", "", "R3", "later-calls-eof", "later RecvMsg on single-request method reads the body again")

# ------------------------------------------------------------------ C02
v("C02", "d3-d14-no-eof-normalisation", "httpgrpc/client.go",
  """		if rErr == io.EOF {
			// The reply ended (or the connection was closed) before the
			// trailer frame was seen. That is a failed call: a bare io.EOF
			// would be reported by RecvMsg as a clean end-of-stream.
			rErr = io.ErrUnexpectedEOF
		}
""", "", "R1", "eof", "pre-fix D3/D14")
v("C02", "payload-normalisation-redundant", "httpgrpc/client.go",
  """		if rErr != nil {
			if rErr == io.EOF {
				rErr = io.ErrUnexpectedEOF
			}
			return
		}

		select {""", """		if rErr != nil {
			return
		}

		select {""", silent=True, why="behaviour-preserving: the publishing point normalises io.EOF anyway")
v("C02", "d4-no-recheck", "inprocgrpc/in_process.go",
  """				if err := ctx.Err(); err != nil {
					return internal.TranslateContextError(err)
				}
				if !gotResponse {""", """				if !gotResponse {""", "R1", "recv-closed", "pre-fix D4")
v("C02", "readmessage-no-recheck", "inprocgrpc/in_process.go",
  """	case m, ok := <-ch:
		if err := ctx.Err(); err != nil {
			return frame{}, err
		}
		if !ok {""", """	case m, ok := <-ch:
		if !ok {""", "R1", "recv-closed", "stream reader trusts channel closure")
v("C02", "eof-without-code-check", "httpgrpc/client.go",
  """	if cs.tr.Code == int32(codes.OK) {
		return true, io.EOF
	}
	statProto := spb.Status{""", """	if cs.tr.Code == int32(codes.OK) || cs.tr.Message == "" {
		return true, io.EOF
	}
	statProto := spb.Status{""", "R1", "returns-EOF", "non-OK trailer with empty message reported as success")
v("C02", "reader-early-exit", "httpgrpc/client.go",
  """		counter++
		var sz int32""", """		counter++
		if counter > 1<<20 {
			return
		}
		var sz int32""", "R1", "exit#", "response reader gives up silently after 2^20 frames: success without trailer")
v("C02", "finish-error-frame-conditional", "inprocgrpc/in_process.go",
  """	s.trailers = nil

	if err != nil {
		// Like the standard transport, report an error that is not a status
		// error as one: the client would take a raw io.EOF for the normal
		// end of the stream.
		if _, ok := status.FromError(err); !ok {
			err = status.FromContextError(err).Err()
		}
		_ = writeMessage(s.ctx, nil, s.responses, frame{err: err})
	}""", """	hadTrailers := len(s.trailers) > 0
	s.trailers = nil

	if err != nil && (hadTrailers || s.state != streamStateHeaders) {
		// Like the standard transport, report an error that is not a status
		// error as one: the client would take a raw io.EOF for the normal
		// end of the stream.
		if _, ok := status.FromError(err); !ok {
			err = status.FromContextError(err).Err()
		}
		_ = writeMessage(s.ctx, nil, s.responses, frame{err: err})
	}""", "R2", "error-frame", "error frame skipped when the handler failed before sending anything")
v("C02", "stream-no-ok-rewrite", "httpgrpc/server.go",
  """			st, _ := status.FromError(internal.TranslateContextError(err))
			if st.Code() == codes.OK {
				// preserve all error details, but rewrite the code since we don't want
				// to send back a non-error status when we know an error occured
				stpb := st.Proto()
				stpb.Code = int32(codes.Internal)
				st = status.FromProto(stpb)
			}
			statProto := st.Proto()
			tr.Code = statProto.Code""", """			st, _ := status.FromError(internal.TranslateContextError(err))
			statProto := st.Proto()
			tr.Code = statProto.Code""", "R2", "ok-rewrite", "stream sibling lost the OK→Internal rewrite")
v("C02", "trailer-drops-details", "httpgrpc/server.go",
  """			tr.Details = statProto.Details
""", "", "R3", "to-HttpTrailer", "details never sent for streams")
v("C02", "client-drops-message", "httpgrpc/client.go",
  """		cs.tr.Code = statProto.Code
		cs.tr.Message = statProto.Message
		cs.tr.Details = statProto.Details""", """		cs.tr.Code = statProto.Code
		cs.tr.Details = statProto.Details""", "R3", "to-HttpTrailer", "message lost for non-200 stream replies")
v("C02", "synth-drops-details", "httpgrpc/client.go",
  """		Code:    cs.tr.Code,
		Message: cs.tr.Message,
		Details: cs.tr.Details,
	}""", """		Code:    cs.tr.Code,
		Message: cs.tr.Message,
	}""", "R3", "to-spb.Status", "details lost when the final status is synthesised")
v("C02", "server-sendmsg-discards-write-error", "inprocgrpc/in_process.go",
  """	return writeMessage(s.ctx, nil, s.responses, frame{data: m})
}

func (s *inProcessServerStream) RecvMsg""", """	_ = writeMessage(s.ctx, nil, s.responses, frame{data: m})
	return nil
}

func (s *inProcessServerStream) RecvMsg""", "R4", "discard", "send reports success although the frame was abandoned")
v("C02", "unary-details-first-only", "httpgrpc/server.go",
  """			for _, d := range statProto.Details {
				b, err := codec.Marshal(d)
				if err != nil {
					continue
				}
				str := base64.RawURLEncoding.EncodeToString(b)
				w.Header().Add(grpcDetailsHeader, str)
			}""", """			if len(statProto.Details) > 0 {
				if b, err := codec.Marshal(statProto.Details[0]); err == nil {
					w.Header().Add(grpcDetailsHeader, base64.RawURLEncoding.EncodeToString(b))
				}
			}""", "R3", "to-headers", "only the first error detail is sent")

# ------------------------------------------------------------------ C04
v("C04", "d12-stream-untranslated", "httpgrpc/client.go",
  """		if ctxErr := cs.ctx.Err(); rErr != nil && ctxErr != nil {
			// The context ended: report that, as a gRPC status, instead of
			// whatever I/O error the cancellation provoked.
			rErr = statusFromContextError(ctxErr)
		}
""", "", "R2", "rErr<-", "pre-fix D12 (stream)")
v("C04", "d12-unary-untranslated", "httpgrpc/client.go",
  """		if ctxErr := ctx.Err(); ctxErr != nil {
			err = ctxErr
		}
		return statusFromContextError(err)""", """		return err""", "R2", "Invoke:return", "pre-fix D12 (unary)")
v("C04", "d7-http-unary-raw-handler-error", "httpgrpc/server.go",
  """			st, _ := status.FromError(internal.TranslateContextError(err))
			if st.Code() == codes.OK {
				// preserve all error details, but rewrite the code since we don't want
				// to send back a non-error status when we know an error occured
				stpb := st.Proto()
				stpb.Code = int32(codes.Internal)
				st = status.FromProto(stpb)
			}
			statProto := st.Proto()
			w.Header()""", """			st, _ := status.FromError(err)
			if st.Code() == codes.OK {
				// preserve all error details, but rewrite the code since we don't want
				// to send back a non-error status when we know an error occured
				stpb := st.Proto()
				stpb.Code = int32(codes.Internal)
				st = status.FromProto(stpb)
			}
			statProto := st.Proto()
			w.Header()""", "R4", "status-of-handler-error", "pre-fix D7 (unary)")
v("C04", "d6-inproc-unary-raw-frame-error", "inprocgrpc/in_process.go",
  """			case r.err != nil:
				return internal.TranslateContextError(r.err)""", """			case r.err != nil:
				return r.err""", "R4", "frame-error", "pre-fix D6")
v("C04", "inproc-invoke-raw-ctx-err", "inprocgrpc/in_process.go",
  """		case <-ctx.Done():
			return internal.TranslateContextError(ctx.Err())
		}
	}
}""", """		case <-ctx.Done():
			return ctx.Err()
		}
	}
}""", "R2", "Invoke:return", "raw ctx.Err() from the unary loop")
v("C04", "recvmsglocked-raw", "inprocgrpc/in_process.go",
  """			if err == io.EOF {
				s.state = streamStateClosed
			}
			return internal.TranslateContextError(err)""", """			if err == io.EOF {
				s.state = streamStateClosed
			}
			return err""", "R2", "RecvMsg", "stream receive returns raw ctx error from readMessage")
v("C04", "handler-ctx-background", "inprocgrpc/in_process.go",
  "svrCtx, svrCancel := context.WithCancel(makeServerContext(ctx))", "svrCtx, svrCancel := context.WithCancel(makeServerContext(context.Background()))", "R3", "ctx", "handler never cancelled")
v("C04", "unary-handler-ctx-detached", "inprocgrpc/in_process.go",
  """	newCtx := context.Context(noValuesContext{ctx})

	if meta, ok""", """	newCtx := context.Background()

	if meta, ok""", "R3", "ctx", "server context loses cancellation and deadline")
v("C04", "request-unbound", "httpgrpc/client.go",
  "reply, err = transport.RoundTrip(req.WithContext(cs.ctx))", "reply, err = transport.RoundTrip(req)", "R3", "request-ctx", "stream request not bound to the call context")
v("C04", "request-background", "httpgrpc/client.go",
  "reply, err := ch.Transport.RoundTrip(r.WithContext(ctx))", "reply, err := ch.Transport.RoundTrip(r.WithContext(context.Background()))", "R3", "request-ctx", "unary request bound to a background context")
v("C04", "recv-without-ctx-arm", "httpgrpc/client.go",
  """	select {
	case <-cs.ctx.Done():
		return statusFromContextError(cs.ctx.Err())
	case msg, ok := <-cs.rCh:""", """	select {
	case msg, ok := <-cs.rCh:""", "R1", "select", "HTTP RecvMsg cannot be interrupted")
v("C04", "writemessage-default-arm", "inprocgrpc/in_process.go",
  """	case <-remote:
		// This is weird, but mimics normal gRPC streams: io.EOF is used
		// to notify client that server has closed the stream
		return io.EOF
	}""", """	case <-remote:
		// This is weird, but mimics normal gRPC streams: io.EOF is used
		// to notify client that server has closed the stream
		return io.EOF
	default:
	}""", "R1", "select", "non-blocking send drops frames")
v("C04", "http-server-ctx-background", "httpgrpc/server.go",
  """		ctx, cancel, err := contextFromHeaders(ctx, r.Header)
		if err != nil {
			writeError(w, http.StatusBadRequest)
			return
		}
		defer cancel()

		req, err := ioutil.ReadAll(r.Body)""", """		ctx, cancel, err := contextFromHeaders(context.Background(), r.Header)
		if err != nil {
			writeError(w, http.StatusBadRequest)
			return
		}
		defer cancel()

		req, err := ioutil.ReadAll(r.Body)""", "R3", "ctx", "HTTP unary handler detached from the request context")

# ------------------------------------------------------------------ C05
v("C05", "close-outside-flag", "inprocgrpc/in_process.go",
  """	if !s.sendClosed {
		close(s.requests)
		s.sendClosed = true
	}
	return nil""", """	close(s.requests)
	s.sendClosed = true
	return nil""", "R2", "close(.requests)", "second CloseSend panics (close of closed channel)")
v("C05", "trysettrailer-no-lock", "inprocgrpc/in_process.go",
  """func (s *inProcessServerStream) TrySetTrailer(md metadata.MD) error {
	s.mu.Lock()
	defer s.mu.Unlock()
	if s.state""", """func (s *inProcessServerStream) TrySetTrailer(md metadata.MD) error {
	if s.state""", "R1", "TrySetTrailer", "trailers mutated without the lock")
v("C05", "rch-closed-before-done", "httpgrpc/client.go",
  """		cs.done = true
		readPipe.CloseWithError(rErr)
		close(cs.rCh)""", """		readPipe.CloseWithError(rErr)
		close(cs.rCh)
		cs.done = true""", "R5", "RecvMsg:panic", "done set after close: the sanity panic becomes reachable")
v("C05", "sendmsg-takes-respmu", "inprocgrpc/in_process.go",
  """func (s *inProcessClientStream) SendMsg(m interface{}) error {
	s.reqMu.Lock()
	defer s.reqMu.Unlock()
""", """func (s *inProcessClientStream) SendMsg(m interface{}) error {
	s.reqMu.Lock()
	defer s.reqMu.Unlock()
	s.respMu.Lock()
	defer s.respMu.Unlock()
""", "R4", "order:", "send takes the receive lock too: deadlock when the receiver blocks")
v("C05", "drop-defer-cancel", "inprocgrpc/in_process.go",
  """	svrCtx := makeServerContext(ctx)

	defer cancel()
	ch := make(chan frame, 1)""", """	svrCtx := makeServerContext(ctx)

	_ = cancel
	ch := make(chan frame, 1)""", "R6", "cancel", "server goroutine never released if the handler ignores its frames' fate")
v("C05", "send-after-close-server", "inprocgrpc/in_process.go",
  """	if s.ctx.Err() != nil || s.state == streamStateClosed {
		return io.EOF
	}
	if s.state == streamStateHeaders {""", """	if s.ctx.Err() != nil {
		return io.EOF
	}
	if s.state == streamStateHeaders {""", "R3", "send(inProcessServerStream.responses)", "handler goroutine leaking a SendMsg after return panics on the closed channel")
v("C05", "client-send-no-closed-check", "inprocgrpc/in_process.go",
  """	if s.sendClosed {
		return fmt.Errorf("send closed")
	}
	if isNil(m) {""", """	if isNil(m) {""", "R3", "send(inProcessClientStream.requests)", "SendMsg after CloseSend panics")
v("C05", "early-return-keeps-lock", "httpgrpc/server.go",
  """func (s *serverStream) SetTrailer(md metadata.MD) {
	s.wmu.Lock()
	defer s.wmu.Unlock()

	// copy: the handler may reuse or edit md after this call returns
	s.tr = append(s.tr, md.Copy())""", """func (s *serverStream) SetTrailer(md metadata.MD) {
	s.wmu.Lock()
	if len(md) == 0 {
		return
	}
	defer s.wmu.Unlock()

	s.tr = append(s.tr, md.Copy())""", "R4", "released", "empty trailer set leaves wmu locked forever")
v("C05", "header-reads-without-lock", "httpgrpc/client.go",
  """	cs.rMu.RLock()
	defer cs.rMu.RUnlock()
	if cs.done {
		return metadataFromProto(cs.tr.Metadata)
	}
	return nil""", """	if cs.done {
		return metadataFromProto(cs.tr.Metadata)
	}
	return nil""", "R1", "Trailer", "trailer read races with the response reader")
v("C05", "new-panic", "inprocgrpc/in_process.go",
  """			default:
				// TODO: panic?
				return status.Error(codes.Internal, "server sent empty frame")""", """			default:
				panic("server sent empty frame")""", "R5", "panic", "library panic on an unexpected frame")
v("C05", "rlock-for-write", "httpgrpc/client.go",
  """					cs.rMu.Lock()
					defer cs.rMu.Unlock()
					if cs.rErr == nil {""", """					cs.rMu.RLock()
					defer cs.rMu.RUnlock()
					if cs.rErr == nil {""", "R1", "rErr:w", "terminal error written under a read lock")
v("C05", "waitgroup-in-goroutine", "httpgrpc/client.go",
  """	go func() {
		defer close(respCh)
		b, err = ioutil.ReadAll(reply.Body)""", """	go func() {
		defer close(respCh)
		time.Sleep(time.Millisecond)
		b, err = ioutil.ReadAll(reply.Body)""", "R6", "go#", "unbounded wait inside a library goroutine")

# ------------------------------------------------------------------ C06
v("C06", "d9-req-captured", "inprocgrpc/in_process.go",
  """	reqCopy, err := cloner.Clone(req)
	if err != nil {
		return err
	}
	codec := func(out interface{}) error {
		return cloner.Copy(out, reqCopy)
	}""", """	codec := func(out interface{}) error {
		return cloner.Copy(out, req)
	}""", "R1", "req", "pre-fix D9")
v("C06", "client-send-no-clone", "inprocgrpc/in_process.go",
  """	m, err := s.cloner.Clone(m)
	if err != nil {
		return err
	}
	return writeMessage(s.ctx, s.svrCtx, s.requests, frame{data: m})""", """	return writeMessage(s.ctx, s.svrCtx, s.requests, frame{data: m})""", "R2", "frame.data<-", "request object shared with the handler")
v("C06", "server-send-clone-skipped-for-small", "inprocgrpc/in_process.go",
  """	m, err := s.cloner.Clone(m)
	if err != nil {
		return err
	}
	return writeMessage(s.ctx, nil, s.responses, frame{data: m})""", """	if _, ok := m.(fmt.Stringer); !ok {
		var err error
		m, err = s.cloner.Clone(m)
		if err != nil {
			return err
		}
	}
	return writeMessage(s.ctx, nil, s.responses, frame{data: m})""", "R2", "frame.data<-", "clone skipped for some message types")
v("C06", "recv-assigns-pointer", "inprocgrpc/in_process.go",
  """	if resp.err != nil {
		return resp.err
	}
	return s.cloner.Copy(m, resp.data)""", """	if resp.err != nil {
		return resp.err
	}
	if pm, ok := m.(*interface{}); ok {
		*pm = resp.data
		return nil
	}
	return s.cloner.Copy(m, resp.data)""", "R2", "use(frame.data)", "received object handed over by reference")
v("C06", "no-reset", "internal/misc.go",
  """	pmOut.Reset()
""", "", "R3", "reset-before-merge", "receive merges into stale destination content")
v("C06", "default-cloner-after-capture", "inprocgrpc/in_process.go",
  """	cloner := c.cloner
	if cloner == nil {
		cloner = ProtoCloner{}
	}

	go func() {""", """	cloner := c.cloner

	go func() {""", "R4", "default-cloner", "nil cloner reaches the stream objects")
v("C06", "resp-stored-for-later", "inprocgrpc/in_process.go",
  """				gotResponse = true
				if err := cloner.Copy(resp, r.data); err != nil {
					return err
				}""", """				gotResponse = true
				go func() { _ = cloner.Copy(resp, r.data) }()""", "R1", "resp", "response filled asynchronously after Invoke returned")

# ------------------------------------------------------------------ C20
v("C20", "capacity-1024", "inprocgrpc/in_process.go",
  "	requests := make(chan frame, 1)", "	requests := make(chan frame, 1024)", "R1", "make(chan frame)", "requests buffer 1024 frames")
v("C20", "capacity-from-option", "inprocgrpc/in_process.go",
  "	responses := make(chan frame, 1)", "	responses := make(chan frame, len(opts)+1)", "R1", "make(chan frame)", "capacity grows with the number of call options")
v("C20", "async-write", "inprocgrpc/in_process.go",
  """	return writeMessage(s.ctx, s.svrCtx, s.requests, frame{data: m})""", """	go writeMessage(s.ctx, s.svrCtx, s.requests, frame{data: m})
	return nil""", "R2", "no-async-handoff", "send returns before the frame took the slot")
v("C20", "pending-queue", "inprocgrpc/in_process.go",
  """	reqMu      sync.Mutex
	sendClosed bool""", """	reqMu      sync.Mutex
	pending    []frame
	sendClosed bool""", "R1", "container", "a second queue next to the channel")
v("C20", "send-with-default", "inprocgrpc/in_process.go",
  """	select {
	case ch <- m:
	case <-ctx.Done():""", """	select {
	case ch <- m:
	default:
		go func() { ch <- m }()
	case <-ctx.Done():""", "R2", "send-select", "non-blocking send with goroutine fallback")

# ------------------------------------------------------------------ C10
v("C10", "no-wrapper", "inprocgrpc/in_process.go",
  "	newCtx := context.Context(noValuesContext{ctx})", "	newCtx := ctx", "R2", "ctx-layers", "caller values visible to the handler; the unit test builds the wrapper itself")
v("C10", "value-delegates-one-key", "inprocgrpc/in_process.go",
  """func (ctx noValuesContext) Value(_ interface{}) interface{} {
	return nil
}""", """func (ctx noValuesContext) Value(k interface{}) interface{} {
	if _, ok := k.(string); ok {
		return nil
	}
	return ctx.Context.Value(k)
}""", "R1", "Value", "only string keys are blocked; gRPC's own typed keys leak")
v("C10", "wrapper-overrides-deadline", "inprocgrpc/in_process.go",
  """func (ctx noValuesContext) Value(_ interface{}) interface{} {
	return nil
}""", """func (ctx noValuesContext) Value(_ interface{}) interface{} {
	return nil
}

func (ctx noValuesContext) Deadline() (time.Time, bool) {
	return time.Time{}, false
}""", "R1", "methods", "handler no longer sees the caller's deadline", edits=[
   {"file": "inprocgrpc/in_process.go", "old": """func (ctx noValuesContext) Value(_ interface{}) interface{} {
	return nil
}""", "new": """func (ctx noValuesContext) Value(_ interface{}) interface{} {
	return nil
}

func (ctx noValuesContext) Deadline() (time.Time, bool) {
	return time.Time{}, false
}"""},
   {"file": "inprocgrpc/in_process.go", "old": '	"sync"\n', "new": '	"sync"\n	"time"\n'}])
v("C10", "reattach-caller-value", "inprocgrpc/in_process.go",
  "	newCtx = peer.NewContext(newCtx, &inprocessPeer)", "	newCtx = peer.NewContext(newCtx, &inprocessPeer)\n	newCtx = metadata.NewOutgoingContext(newCtx, metadata.MD{})", "R2", "ctx-layers", "an unsanctioned value layer above the wrapper")
v("C10", "md-shared", "inprocgrpc/in_process.go",
  """	if meta, ok := metadata.FromOutgoingContext(ctx); ok {
		newCtx = metadata.NewIncomingContext(newCtx, meta)
	}""", """	if meta, ok := ctx.Value(mdKey{}).(metadata.MD); ok {
		newCtx = metadata.NewIncomingContext(newCtx, meta)
	}""", "R3", "incoming-md", "metadata map obtained another way (shared)", edits=[
   {"file": "inprocgrpc/in_process.go", "old": """	if meta, ok := metadata.FromOutgoingContext(ctx); ok {
		newCtx = metadata.NewIncomingContext(newCtx, meta)
	}""", "new": """	if meta, ok := ctx.Value(mdKey{}).(metadata.MD); ok {
		newCtx = metadata.NewIncomingContext(newCtx, meta)
	}"""},
   {"file": "inprocgrpc/in_process.go", "old": "var clientContextKey = ", "new": "type mdKey struct{}\n\nvar clientContextKey = "}])
v("C10", "md-mutated", "inprocgrpc/in_process.go",
  """	if meta, ok := metadata.FromOutgoingContext(ctx); ok {
		newCtx = metadata.NewIncomingContext(newCtx, meta)""", """	if meta, ok := metadata.FromOutgoingContext(ctx); ok {
		meta["x-inproc"] = []string{"1"}
		newCtx = metadata.NewIncomingContext(newCtx, meta)""", "R3", "incoming-md", "library writes into the metadata it forwards")
v("C10", "peer-from-caller", "inprocgrpc/in_process.go",
  "	newCtx = peer.NewContext(newCtx, &inprocessPeer)", "	if pr, ok := peer.FromContext(ctx); ok {\n		newCtx = peer.NewContext(newCtx, pr)\n	} else {\n		newCtx = peer.NewContext(newCtx, &inprocessPeer)\n	}", "R4", "peer", "the enclosing server's peer leaks into nested in-process calls")
v("C10", "client-ctx-stores-derived", "inprocgrpc/in_process.go",
  "	newCtx = context.WithValue(newCtx, &clientContextKey, ctx)", "	newCtx = context.WithValue(newCtx, &clientContextKey, newCtx)", "R2", "stores-client-ctx", "ClientContext returns the server-side context, not the caller's")

# ------------------------------------------------------------------ C01
v("C01", "last-frame-cache-on-channel", "inprocgrpc/in_process.go",
  """type Channel struct {
	handlers          grpchan.HandlerMap""", """type Channel struct {
	lastResp          chan frame
	handlers          grpchan.HandlerMap""", "R1", "no-per-call-fields", "a channel field on the long-lived Channel")
v("C01", "per-call-write-to-channel", "inprocgrpc/in_process.go",
  """	cloner := c.cloner
	if cloner == nil {
		cloner = ProtoCloner{}
	}

	go func() {""", """	cloner := c.cloner
	if cloner == nil {
		cloner = ProtoCloner{}
		c.cloner = cloner
	}

	go func() {""", "R1", "store-longlived", "per-call code lazily initialises shared channel state (racy, shared)")
v("C01", "shared-buffer-global", "httpgrpc/io.go",
  """	b, err := codec.Marshal(m)
	if err != nil {
		return err
	}

	sz := len(b)""", """	b, err := codec.Marshal(m)
	if err != nil {
		return err
	}
	lastFrame = b

	sz := len(b)""", "R1", "store-global", "per-call code writes a package variable", edits=[
   {"file": "httpgrpc/io.go", "old": """	b, err := codec.Marshal(m)
	if err != nil {
		return err
	}

	sz := len(b)""", "new": """	b, err := codec.Marshal(m)
	if err != nil {
		return err
	}
	lastFrame = b

	sz := len(b)"""},
   {"file": "httpgrpc/io.go", "old": "const (\n	maxMessageSize", "new": "var lastFrame []byte\n\nconst (\n	maxMessageSize"}])
v("C01", "http-send-skips-empty", "httpgrpc/server.go",
  """	s.headersSent = true // sent implicitly
	err := writeProtoMessage(s.w, s.codec, m, false)""", """	s.headersSent = true // sent implicitly
	if pm, ok := m.(interface{ String() string }); ok && pm.String() == "" {
		return nil
	}
	err := writeProtoMessage(s.w, s.codec, m, false)""", "R2", "success-needs-handover", "empty messages are silently not sent")
v("C01", "writemessage-nil-on-remote-done", "inprocgrpc/in_process.go",
  """	case <-remote:
		// This is weird, but mimics normal gRPC streams: io.EOF is used
		// to notify client that server has closed the stream
		return io.EOF
	}""", """	case <-remote:
		return nil
	}""", "R2", "deliverer", "send reports success although the frame was never taken")
v("C01", "inproc-send-twice", "inprocgrpc/in_process.go",
  """	return writeMessage(s.ctx, s.svrCtx, s.requests, frame{data: m})
}""", """	if err := writeMessage(s.ctx, s.svrCtx, s.requests, frame{data: m}); err != nil {
		return writeMessage(s.ctx, s.svrCtx, s.requests, frame{data: m})
	}
	return nil
}""", "R2", "success-needs-handover", "retry can deliver the message twice")
v("C01", "recv-success-without-copy", "inprocgrpc/in_process.go",
  """	if resp.err != nil {
		return resp.err
	}
	return s.cloner.Copy(m, resp.data)""", """	if resp.err != nil {
		return resp.err
	}
	if resp.data == nil {
		return nil
	}
	return s.cloner.Copy(m, resp.data)""", "R3", "success-needs-one-decode", "a receive can succeed without filling the destination")
v("C01", "http-frame-size-little-endian", "httpgrpc/io.go",
  "	err := binary.Read(in, binary.BigEndian, &sz)", "	err := binary.Read(in, binary.LittleEndian, &sz)", "R5", "byte-order", "reader and writer disagree on byte order (all test messages < 256 bytes still parse wrongly — caught by suite? kept as checker self-test)")
v("C01", "size-of-other-slice", "httpgrpc/io.go",
  """	_, err = w.Write(b)
	if err == nil {""", """	_, err = w.Write(append(b, 0)[:len(b):len(b)])
	if err == nil {""", "R5", "size-is-len", "the slice written is not the one whose length was announced")
v("C01", "content-length-off", "httpgrpc/server.go",
  """		w.Header().Set("Content-Length", fmt.Sprintf("%d", len(b)))""", """		w.Header().Set("Content-Length", fmt.Sprintf("%d", len(req)))""", "R5", "content-length", "Content-Length announces the request's length")
v("C01", "recv-outside-lock", "inprocgrpc/in_process.go",
  """func (s *inProcessClientStream) RecvMsg(m interface{}) error {
	s.respMu.Lock()
	defer s.respMu.Unlock()
	return s.recvMsgLocked(m, !s.responseStream)""", """func (s *inProcessClientStream) RecvMsg(m interface{}) error {
	return s.recvMsgLocked(m, !s.responseStream)""", "R4", "receive(", "concurrent receivers interleave frames")
v("C01", "negate-always", "httpgrpc/io.go",
  """	if end {
		// trailer message is indicated w/ negative size
		sz = -sz
	}""", """	if end || sz == 0 {
		// trailer message is indicated w/ negative size
		sz = -sz
	}""", silent=True, why="behaviour-preserving: -0 == 0")

# ------------------------------------------------------------------ C03
v("C03", "http-sendmsg-no-headerssent", "httpgrpc/server.go",
  "	s.headersSent = true // sent implicitly\n", "", "R1", "data-marks-sent", "SetHeader after the first message silently succeeds and is lost")
v("C03", "inproc-setheader-no-state-check", "inprocgrpc/in_process.go",
  """	if s.state != streamStateHeaders {
		return fmt.Errorf("headers already sent")
	}
	if s.headers == nil {""", """	if s.headers == nil {""", "R1", "header-mutation-guarded", "headers accepted after they were sent")
v("C03", "unary-sts-sendheader-no-mark", "internal/transport_stream.go",
  """	if err := sts.setHeaderLocked(md); err != nil {
		return err
	}
	sts.hdrsSent = true
	return nil""", """	if err := sts.setHeaderLocked(md); err != nil {
		return err
	}
	return nil""", "R1", "SendHeader:marks-sent", "SendHeader does not close the header phase")
v("C03", "finish-error-before-trailers", "inprocgrpc/in_process.go",
  """	if len(s.trailers) > 0 {
		_ = writeMessage(s.ctx, nil, s.responses, frame{trailers: s.trailers})
	}
	s.trailers = nil

	if err != nil {
		// Like the standard transport, report an error that is not a status
		// error as one: the client would take a raw io.EOF for the normal
		// end of the stream.
		if _, ok := status.FromError(err); !ok {
			err = status.FromContextError(err).Err()
		}
		_ = writeMessage(s.ctx, nil, s.responses, frame{err: err})
	}""", """	if err != nil {
		// Like the standard transport, report an error that is not a status
		// error as one: the client would take a raw io.EOF for the normal
		// end of the stream.
		if _, ok := status.FromError(err); !ok {
			err = status.FromContextError(err).Err()
		}
		_ = writeMessage(s.ctx, nil, s.responses, frame{err: err})
	}

	if len(s.trailers) > 0 {
		_ = writeMessage(s.ctx, nil, s.responses, frame{trailers: s.trailers})
	}
	s.trailers = nil""", "R2", "frame-order", "trailers after the error frame are never seen by the client")
v("C03", "header-option-overwritten", "internal/call_options.go",
  "			copts.Headers = append(copts.Headers, o.HeaderAddr)", "			copts.Headers = []*metadata.MD{o.HeaderAddr}", "R3", "Headers:append", "only the last grpc.Header option is filled")
v("C03", "settrailers-first-only", "internal/call_options.go",
  """	for _, tlr := range co.Trailers {
		*tlr = md
	}""", """	for _, tlr := range co.Trailers {
		*tlr = md
		break
	}""", "R3", "fan-out", "only the first grpc.Trailer target is filled")
v("C03", "header-path-forgets-options", "inprocgrpc/in_process.go",
  """			case kindTrailers:
				s.trailers = m.trailers
				s.copts.SetTrailers(s.trailers)
			case kindError:
				s.state = streamStateClosed
				fallthrough""", """			case kindTrailers:
				s.trailers = m.trailers
			case kindError:
				s.state = streamStateClosed
				fallthrough""", "R3", "SetTrailers", "trailers seen by Header() never reach grpc.Trailer options")
v("C03", "toheaders-stdencoding", "httpgrpc/io.go",
  "				v = base64.URLEncoding.EncodeToString([]byte(v))", "				v = base64.StdEncoding.EncodeToString([]byte(v))", "R4", "bin-codec-agreement", "writer uses the std alphabet, reader the URL alphabet: values with bytes mapping to +/ fail")
v("C03", "asmetadata-no-decode", "httpgrpc/io.go",
  """			if strings.HasSuffix(k, "-bin") {
				vv, err := base64.URLEncoding.DecodeString(v)
				if err != nil {
					return nil, err
				}
				v = string(vv)
			}""", "", "R4", "asMetadata:bin-codec", "binary headers delivered still encoded")
v("C03", "reserved-authorization", "httpgrpc/io.go",
  '	"accept-encoding":   {},', '	"accept-encoding":   {},\n	"authorization":     {},', "R5", "reserved-headers:authorization", "application metadata 'authorization' silently dropped")
v("C03", "toheaders-skip-empty-values", "httpgrpc/io.go",
  """		for _, v := range vs {
			if isBin {""", """		for _, v := range vs {
			if v == "" {
				continue
			}
			if isBin {""", "R5", "only-reserved-filter", "empty metadata values are dropped")

# ------------------------------------------------------------------ C11
v("C11", "no-method-check-stream", "httpgrpc/server.go",
  """		defer drainAndClose(r.Body)
		if r.Method != "POST" {
			w.Header().Set("Allow", "POST")
			writeError(w, http.StatusMethodNotAllowed)
			return
		}

		contentType := r.Header.Get("Content-Type")
		codec := getStreamingCodec(contentType)""", """		defer drainAndClose(r.Body)

		contentType := r.Header.Get("Content-Type")
		codec := getStreamingCodec(contentType)""", "R1", "post", "GET requests run streaming handlers")
v("C11", "method-check-allows-put", "httpgrpc/server.go",
  """		defer drainAndClose(r.Body)
		if r.Method != "POST" {
			w.Header().Set("Allow", "POST")
			writeError(w, http.StatusMethodNotAllowed)
			return
		}

		contentType := r.Header.Get("Content-Type")
		codec := getUnaryCodec(contentType)""", """		defer drainAndClose(r.Body)
		if r.Method != "POST" && r.Method != "PUT" {
			w.Header().Set("Allow", "POST")
			writeError(w, http.StatusMethodNotAllowed)
			return
		}

		contentType := r.Header.Get("Content-Type")
		codec := getUnaryCodec(contentType)""", "R1", "post", "PUT accepted for unary calls")
v("C11", "wrong-status-for-bad-headers", "httpgrpc/server.go",
  """		ctx, cancel, err := contextFromHeaders(ctx, r.Header)
		if err != nil {
			writeError(w, http.StatusBadRequest)
			return
		}
		defer cancel()

		w.Header().Set("Content-Type", contentType)""", """		ctx, cancel, err := contextFromHeaders(ctx, r.Header)
		if err != nil {
			writeError(w, http.StatusInternalServerError)
			return
		}
		defer cancel()

		w.Header().Set("Content-Type", contentType)""", "R1", "reject-headers", "undecodable headers answered 500")
v("C11", "header-error-ignored", "httpgrpc/server.go",
  """		ctx, cancel, err := contextFromHeaders(ctx, r.Header)
		if err != nil {
			writeError(w, http.StatusBadRequest)
			return
		}
		defer cancel()

		req, err := ioutil.ReadAll(r.Body)""", """		ctx, cancel, _ := contextFromHeaders(ctx, r.Header)
		defer cancel()

		req, err := ioutil.ReadAll(r.Body)""", "R1", "headers", "handler runs although -bin headers did not decode")
v("C11", "stream-accepts-json", "httpgrpc/protocol_versions.go",
  """	if mediaType == ApplicationJson {
		// TODO: support half-duplix JSON streaming?
		// https://en.wikipedia.org/wiki/JSON_streaming#Record_separator-delimited_JSON
		return nil
	}""", """	if mediaType == ApplicationJson {
		return encoding.GetCodec("json")
	}""", "R3", "table", "streaming handlers accept JSON frames")
v("C11", "unary-codec-case-fold", "httpgrpc/protocol_versions.go",
  """	if mediaType == UnaryRpcContentType_V1 {
		return encoding.GetCodec(grpcproto.Name)
	}

	if mediaType == ApplicationJson {
		return encoding.GetCodec("json")
	}""", """	if mediaType == UnaryRpcContentType_V1 {
		return encoding.GetCodec(grpcproto.Name)
	}

	if mediaType == ApplicationJson || mediaType == "text/json" {
		return encoding.GetCodec("json")
	}""", "R3", "table", "an extra media type is accepted")
v("C11", "no-trailer-on-success", "httpgrpc/server.go",
  """		if str.writeFailed {
			// nothing else we can do
			return
		}
""", """		if str.writeFailed || (err == nil && len(str.tr) == 0) {
			// nothing else we can do
			return
		}
""", "R4", "one-trailer", "successful streams without trailers end without the trailer frame")
v("C11", "decode-error-internal", "httpgrpc/server.go",
  "				return status.Error(codes.InvalidArgument, err.Error())", "				return status.Error(codes.Internal, err.Error())", "R5", "decode-error-code", "undecodable request reported as Internal")
v("C11", "client-json-content-type", "httpgrpc/client.go",
  '	h.Set("Content-Type", StreamRpcContentType_V1)', '	h.Set("Content-Type", UnaryRpcContentType_V1)', "R3", "NewStream:content-type", "client marks streams with the unary content type")
v("C11", "handler-invoked-twice", "httpgrpc/server.go",
  """		if streamInt != nil {
			err = streamInt(svr, str, info, desc.Handler)
		} else {
			err = desc.Handler(svr, str)
		}""", """		if streamInt != nil {
			err = streamInt(svr, str, info, desc.Handler)
		}
		if streamInt == nil || err != nil {
			err = desc.Handler(svr, str)
		}""", "R2", "handler-once", "fallback runs the handler a second time after an interceptor error")

# ------------------------------------------------------------------ C15
v("C15", "store-before-dup-check", "server.go",
  """	if _, ok := m[desc.ServiceName]; ok {
		panic(fmt.Sprintf("service %s: handler already registered", desc.ServiceName))
	}
	m[desc.ServiceName] = service{desc: desc, handler: h}""", """	old, ok := m[desc.ServiceName]
	m[desc.ServiceName] = service{desc: desc, handler: h}
	if ok && old.handler != h {
		panic(fmt.Sprintf("service %s: handler already registered", desc.ServiceName))
	}""", "R1", "exclusive", "refused duplicate registration has already replaced the earlier one")
v("C15", "no-type-check-for-nil-handlertype", "server.go",
  """	if !st.Implements(ht) {
		panic(""", """	if ht.NumMethod() > 0 && !st.Implements(ht) && st.Kind() != reflect.Ptr {
		panic(""", "R1", "refusal-panics", "ill-typed pointer handlers are accepted")
v("C15", "getserviceinfo-skips-streamless", "server.go",
  """	for _, svc := range m {
		methods := make([]grpc.MethodInfo, 0, len(svc.desc.Methods)+len(svc.desc.Streams))""", """	for _, svc := range m {
		if len(svc.desc.Methods) == 0 {
			continue
		}
		methods := make([]grpc.MethodInfo, 0, len(svc.desc.Methods)+len(svc.desc.Streams))""", "R2", "GetServiceInfo:unfiltered", "stream-only services missing from reflection info")
v("C15", "stream-flags-swapped", "server.go",
  """				IsClientStream: mtd.ClientStreams,
				IsServerStream: mtd.ServerStreams,""", """				IsClientStream: mtd.ServerStreams,
				IsServerStream: mtd.ClientStreams,""", "R3", "stream-entry", "streaming flags crossed in service info")
v("C15", "metadata-dropped", "server.go",
  """			Methods:  methods,
			Metadata: svc.desc.Metadata,""", """			Methods:  methods,""", "R3", "service-entry", "file metadata missing: reflection cannot find the proto file")
v("C15", "foreach-first-only", "server.go",
  """	for _, svc := range m {
		fn(svc.desc, svc.handler)
	}""", """	for _, svc := range m {
		fn(svc.desc, svc.handler)
		if len(m) > 8 {
			break
		}
	}""", "R2", "ForEach:unfiltered", "iteration stops early for large registries")
v("C15", "server-mounts-before-registry", "httpgrpc/server.go",
  """func (s *Server) RegisterService(desc *grpc.ServiceDesc, svr interface{}) {
	s.handlers.RegisterService(desc, svr)
	for i := range desc.Methods {""", """func (s *Server) RegisterService(desc *grpc.ServiceDesc, svr interface{}) {
	defer s.handlers.RegisterService(desc, svr)
	for i := range desc.Methods {""", "R4", "delegates", "handlers mounted before the registry could refuse")
v("C15", "queryservice-wrong-key", "server.go",
  "	svc := m[name]\n	return svc.desc, svc.handler", "	svc := m[strings.TrimSpace(name)]\n	return svc.desc, svc.handler", "R2", "QueryService", "lookup key normalised differently from the registration key", edits=[
   {"file": "server.go", "old": "	svc := m[name]\n	return svc.desc, svc.handler", "new": "	svc := m[strings.TrimSpace(name)]\n	return svc.desc, svc.handler"},
   {"file": "server.go", "old": '	"reflect"\n', "new": '	"reflect"\n	"strings"\n'}])

# ------------------------------------------------------------------ C16
v("C16", "writes-input-methods", "intercept.go",
  """		intercepted.Methods = make([]grpc.MethodDesc, len(svcDesc.Methods))
		for i, md := range svcDesc.Methods {""", """		for i, md := range svcDesc.Methods {""", "R1", "input-not-written", "decorated handlers written into the caller's Methods slice")
v("C16", "order-inverted", "intercept.go",
  """							h := func(ctx context.Context, req interface{}) (interface{}, error) {
								return unaryInt(ctx, req, info, handler)
							}
							// we first call provided interceptor, but supply a handler that will call unaryInt
							return interceptor(ctx, req, info, h)""", """							h := func(ctx context.Context, req interface{}) (interface{}, error) {
								return interceptor(ctx, req, info, handler)
							}
							return unaryInt(ctx, req, info, h)""", "R2", "calls-transport-first", "decorating interceptor runs before the transport's")
v("C16", "transport-interceptor-dropped", "intercept.go",
  "					return origHandler(srv, ctx, dec, combinedInterceptor)", "					_ = combinedInterceptor\n					return origHandler(srv, ctx, dec, unaryInt)", "R2", "interceptor-arg", "transport-supplied interceptor silently ignored by decorated services")
v("C16", "stream-flags-crossed-decorator", "intercept.go",
  """				IsClientStream: sd.ClientStreams,
				IsServerStream: sd.ServerStreams,
			}
			intercepted.Streams[i]""", """				IsClientStream: sd.ServerStreams,
				IsServerStream: sd.ClientStreams,
			}
			intercepted.Streams[i]""", "R3", "flags", "interceptors told the wrong streaming flags")
v("C16", "http-fullmethod-no-slash", "httpgrpc/server.go",
  """		FullMethod:     fmt.Sprintf("/%s/%s", serviceName, desc.StreamName),""", """		FullMethod:     fmt.Sprintf("%s/%s", serviceName, desc.StreamName),""", "R3", "full-method", "stream interceptors see a method name without the leading slash")
v("C16", "identity-when-one-nil", "intercept.go",
  """func InterceptServer(svcDesc *grpc.ServiceDesc, unaryInt grpc.UnaryServerInterceptor, streamInt grpc.StreamServerInterceptor) *grpc.ServiceDesc {
	if unaryInt == nil && streamInt == nil {""", """func InterceptServer(svcDesc *grpc.ServiceDesc, unaryInt grpc.UnaryServerInterceptor, streamInt grpc.StreamServerInterceptor) *grpc.ServiceDesc {
	if unaryInt == nil || streamInt == nil {""", "R4", "identity", "a single interceptor is dropped")
v("C16", "http-unary-nil-interceptor", "httpgrpc/server.go",
  "		resp, err := desc.Handler(svr, grpc.NewContextWithServerTransportStream(ctx, &sts), dec, unaryInt)", "		resp, err := desc.Handler(svr, grpc.NewContextWithServerTransportStream(ctx, &sts), dec, nil)", "R5", "unary-interceptor-handed-over", "HTTP unary calls bypass the configured interceptor")
v("C16", "inproc-stream-both", "inprocgrpc/in_process.go",
  """			err = c.streamInterceptor(handler, serverStream, &info, md.Handler)
		} else {
			err = md.Handler(handler, serverStream)
		}""", """			err = c.streamInterceptor(handler, serverStream, &info, md.Handler)
		}
		if err == nil {
			err = md.Handler(handler, serverStream)
		}""", "R5", "stream-dispatch", "handler runs again after the interceptor")
v("C16", "decorator-captures-range-var", "intercept.go",
  """		for i, sd := range svcDesc.Streams {
			origHandler := sd.Handler
			info := &grpc.StreamServerInfo{""", """		var origHandler grpc.StreamHandler
		for i, sd := range svcDesc.Streams {
			origHandler = sd.Handler
			info := &grpc.StreamServerInfo{""", "R6", "captures", "all decorated streams dispatch to the last entry's handler")
v("C16", "stream-info-of-first-entry", "intercept.go",
  """				FullMethod:     fmt.Sprintf("/%s/%s", svcDesc.ServiceName, sd.StreamName),""", """				FullMethod:     fmt.Sprintf("/%s/%s", svcDesc.ServiceName, svcDesc.ServiceName),""", "R3", "full-method", "method name replaced by the service name")

# ------------------------------------------------------------------ C18
v("C18", "no-reset", "internal/misc.go", "	pmOut.Reset()\n", "", "R1", "reset-before-merge", "copy merges into previous content")
v("C18", "merge-error-dropped", "internal/misc.go",
  "	return dynamic.TryMerge(pmOut, pmIn)", "	_ = dynamic.TryMerge(pmOut, pmIn)\n	return nil", "R1", "merge-error-returned", "type mismatch silently ignored")
v("C18", "non-proto-shallow", "internal/misc.go",
  """	pm, ok := m.(proto.Message)
	if !ok {
		return nil, fmt.Errorf("value to clone is not a proto.Message: %T; use a custom cloner", m)
	}""", """	pm, ok := m.(proto.Message)
	if !ok {
		return m, nil
	}""", "R2", "not-proto", "non-proto values are returned as is (shared)")
v("C18", "clonefunc-sets-source", "inprocgrpc/cloner.go",
  """		in, err := fn(in) // deep copy input
		if err != nil {
			return err
		}
""", """		if _, err := fn(in); err != nil { // deep copy input
			return err
		}
""", "R3", "assigns-the-clone", "Copy assigns the source's own value: shallow copy")
v("C18", "clonefunc-no-type-check", "inprocgrpc/cloner.go",
  """		if src.Type() != dest.Type() {
			return fmt.Errorf("incompatible types: %v != %v", src.Type(), dest.Type())
		}
""", "", "R2", "types-equal", "mismatched destination type panics in reflect")
v("C18", "codec-unmarshal-other-bytes", "inprocgrpc/cloner.go",
  """		if b, err := codec.Marshal(in); err != nil {
			return err
		} else if err := codec.Unmarshal(b, out); err != nil {
			return err
		}
		return nil""", """		b, err := codec.Marshal(in)
		if err != nil {
			return err
		}
		_ = codec.Unmarshal(b, out)
		return nil""", "R3", "codec-errors-returned", "decode error dropped: copy reported as done")
v("C18", "copyfunc-clone-returns-source", "inprocgrpc/cloner.go",
  """		clone := reflect.New(reflect.TypeOf(in).Elem()).Interface()
		if err := fn(clone, in); err != nil {
			return nil, err
		}
		return clone, nil""", """		clone := reflect.New(reflect.TypeOf(in).Elem()).Interface()
		if err := fn(clone, in); err != nil {
			return nil, err
		}
		return in, nil""", "R3", "copy-into-fresh", "Clone returns the source itself")
v("C18", "protocloner-copy-swapped", "inprocgrpc/cloner.go",
  "		return internal.CopyMessage(out, in)", "		return internal.CopyMessage(in, out)", "R3", "delegates-to-primitive", "copy direction reversed: the source is overwritten")
v("C18", "copy-resets-source", "internal/misc.go",
  "	pmOut.Reset()\n", "	pmOut.Reset()\n	defer pmIn.Reset()\n", "R4", "source-read-only", "the source message is cleared after copying")

# ------------------------------------------------------------------ C19
v("C19", "increment-in-unary-branch", "cmd/protoc-gen-grpchan/protoc-gen-grpchan.go",
  """						return out, nil`), &methodInfo))
			}""", """						return out, nil`), &methodInfo))
				streamCount++
			}""", "R1", "counter-increments", "unary methods consume a stream index")
v("C19", "increment-before-data", "cmd/protoc-gen-grpchan/protoc-gen-grpchan.go",
  """		for _, md := range sd.GetMethods() {
			methodInfo := struct {""", """		for _, md := range sd.GetMethods() {
			if md.IsClientStreaming() || md.IsServerStreaming() {
				streamCount++
			}
			methodInfo := struct {""", "R1", "counter", "index read after the increment (off by one)")
v("C19", "counter-not-reset", "cmd/protoc-gen-grpchan/protoc-gen-grpchan.go",
  """		streamCount := 0
		tmpls := templates{}""", """		tmpls := templates{}""", "R1", "counter-reset-per-service", "second service's streams continue the first one's numbering", edits=[
   {"file": "cmd/protoc-gen-grpchan/protoc-gen-grpchan.go", "old": "		streamCount := 0\n		tmpls := templates{}", "new": "		tmpls := templates{}"},
   {"file": "cmd/protoc-gen-grpchan/protoc-gen-grpchan.go", "old": "	for _, sd := range fd.GetServices() {\n		svcName :=", "new": "	streamCount := 0\n	for _, sd := range fd.GetServices() {\n		svcName :="}])
v("C19", "template-field-typo", "cmd/protoc-gen-grpchan/protoc-gen-grpchan.go",
  """						x := &{{.StreamClient}}{stream}
						if err := x.ClientStream.SendMsg(in); err != nil {""", """						x := &{{.StreamClientImpl}}{stream}
						if err := x.ClientStream.SendMsg(in); err != nil {""", "R2", "fields-exist", "template references a non-existent field: plugin fails at run time")
v("C19", "server-stream-no-closesend", "cmd/protoc-gen-grpchan/protoc-gen-grpchan.go",
  """						if err := x.ClientStream.CloseSend(); err != nil {
						    return nil, err
						}
						return x, nil`), &methodInfo))""", """						return x, nil`), &methodInfo))""", "R2", "send-then-close", "server-streaming stub never half-closes")
v("C19", "unary-allocates-input-type", "cmd/protoc-gen-grpchan/protoc-gen-grpchan.go",
  "				RequestType:  names.GoTypeForMessage(md.GetOutputType()),", "				RequestType:  names.GoTypeForMessage(md.GetInputType()),", "R2", "data:output-type", "unary stub allocates the request type for the response")
v("C19", "path-uses-short-service-name", "cmd/protoc-gen-grpchan/protoc-gen-grpchan.go",
  "				ServiceName:  sd.GetFullyQualifiedName(),", "				ServiceName:  sd.GetName(),", "R2", "data:names", "path lacks the proto package")
v("C19", "checked-in-stub-wrong-index", "grpchantesting/test.pb.grpchan.go",
  '	stream, err := c.ch.NewStream(ctx, &TestService_ServiceDesc.Streams[2], "/grpchantesting.TestService/BidiStream", opts...)', '	stream, err := c.ch.NewStream(ctx, &TestService_ServiceDesc.Streams[1], "/grpchantesting.TestService/BidiStream", opts...)', "R3", "stream-binding", "bidi stub bound to the server-stream descriptor")
v("C19", "option-aliases-field", "cmd/protoc-gen-grpchan/protoc-gen-grpchan.go",
  """			result.legacyDescNames = val

		case "import_path":""", """			result.legacyStubs = val

		case "import_path":""", "R4", "bool-options", "legacy_desc_names toggles legacy_stubs")
v("C19", "m-option-unguarded", "cmd/protoc-gen-grpchan/protoc-gen-grpchan.go",
  "			if len(vals[0]) > 1 && vals[0][0] == 'M' {", "			if vals[0][0] == 'M' {", "R4", "bounds", "empty option name panics the plugin")
v("C19", "new-option", "cmd/protoc-gen-grpchan/protoc-gen-grpchan.go",
  """		case "module":""", """		case "module", "mod":""", "R4", "option-names", "an undocumented option alias is accepted")

# ------------------------------------------------------------------ behaviour-preserving refactors (must stay silent)
def silent_all(name, edits, why, props, patch=None):
    for pr in props:
        d = {"why": why, "edits": edits, "property": pr, "expect": "silent"}
        if patch:
            d["patch"] = patch
        VARIANTS.append((pr, "silent-" + name, d))

silent_all("rename-frame-helpers", [
    {"file": "inprocgrpc/in_process.go", "old": "writeMessage(", "new": "sendFrame(", "all": True},
    {"file": "inprocgrpc/in_process.go", "old": "readMessage(", "new": "recvFrame(", "all": True},
], "private helpers renamed", ["C01", "C02", "C03", "C04", "C05", "C06", "C08", "C20"])
silent_all("rename-translator", [
    {"file": "httpgrpc/client.go", "old": "statusFromContextError", "new": "ctxErrToStatus", "all": True},
], "private translator renamed", ["C02", "C04", "C07", "C13"])
silent_all("io-readall", [
    {"file": "httpgrpc/client.go", "old": "ioutil.ReadAll", "new": "io.ReadAll", "all": True},
    {"file": "httpgrpc/client.go", "old": "ioutil.NopCloser", "new": "io.NopCloser", "all": True},
    {"file": "httpgrpc/client.go", "old": '	"io/ioutil"\n', "new": ""},
    {"file": "httpgrpc/server.go", "old": "ioutil.ReadAll", "new": "io.ReadAll", "all": True},
    {"file": "httpgrpc/server.go", "old": "ioutil.Discard", "new": "io.Discard", "all": True},
    {"file": "httpgrpc/server.go", "old": '	"io/ioutil"\n', "new": ""},
], "ioutil → io equivalents", ["C01", "C02", "C04", "C05", "C07", "C11"])
silent_all("method-switch", [
    {"file": "httpgrpc/server.go", "old": """		defer drainAndClose(r.Body)
		if r.Method != "POST" {
			w.Header().Set("Allow", "POST")
			writeError(w, http.StatusMethodNotAllowed)
			return
		}

		contentType := r.Header.Get("Content-Type")
		codec := getUnaryCodec(contentType)""", "new": """		defer drainAndClose(r.Body)
		switch r.Method {
		case "POST":
		default:
			w.Header().Set("Allow", "POST")
			writeError(w, http.StatusMethodNotAllowed)
			return
		}

		contentType := r.Header.Get("Content-Type")
		codec := getUnaryCodec(contentType)"""},
], "if → switch in the method gate", ["C11", "C14", "C02", "C04"])
silent_all("rename-locals-dohttpcall", [
    {"file": "httpgrpc/client.go", "old": "rMuHeld", "new": "lockHandedOver", "all": True},
    {"file": "httpgrpc/client.go", "old": "counter", "new": "nframes", "all": True},
], "locals renamed in the response reader", ["C02", "C04", "C05", "C07"])
silent_all("swap-channel-makes", [
    {"file": "inprocgrpc/in_process.go", "old": """	requests := make(chan frame, 1)
	responses := make(chan frame, 1)""", "new": """	responses := make(chan frame, 1)
	requests := make(chan frame, 1)"""},
], "two independent statements swapped", ["C01", "C05", "C20"])
silent_all("milliseconds-method", [
    {"file": "httpgrpc/client.go", "old": "		millis := int64(timeout / time.Millisecond)", "new": "		millis := timeout.Milliseconds()"},
], "Duration.Milliseconds() is the same floor division", ["C09"])
silent_all("codes-literals", [
    {"file": "httpgrpc/codes.go", "old": """	case codes.OK:
		return http.StatusOK
	case codes.Canceled:
		return http.StatusBadGateway""", "new": """	case codes.Canceled:
		return 502
	case codes.OK:
		return 200"""},
], "table rows reordered, literals instead of named constants", ["C14"])
silent_all("rename-unwrap", [
    {"file": "intercept.go", "old": "unwrap(", "new": "rootConn(", "all": True},
], "private helper renamed", ["C17"])
silent_all("split-helper", [
    {"file": "inprocgrpc/in_process.go", "old": """	strs := strings.SplitN(method[1:], "/", 2)
	if len(strs) != 2 {
		return status.Errorf(codes.Unimplemented, "malformed method name: %q", method)
	}
	serviceName := strs[0]
	methodName := strs[1]""", "new": """	serviceName, methodName, okName := splitMethodName(method)
	if !okName {
		return status.Errorf(codes.Unimplemented, "malformed method name: %q", method)
	}"""},
    {"file": "inprocgrpc/in_process.go", "old": "var clientContextKey = ", "new": """func splitMethodName(method string) (string, string, bool) {
	strs := strings.SplitN(method[1:], "/", 2)
	if len(strs) != 2 {
		return "", "", false
	}
	return strs[0], strs[1], true
}

var clientContextKey = """},
], "method-name parsing extracted into a helper (Invoke only)", ["C12"])
silent_all("register-helper", [
    {"file": "httpgrpc/server.go", "old": """	for i := range desc.Methods {
		md := desc.Methods[i]
		h := handleMethod(svr, desc.ServiceName, &md, s.unaryInt, &s.opts)
		s.mux.HandleFunc(path.Join(s.basePath, fmt.Sprintf("%s/%s", desc.ServiceName, md.MethodName)), h)
	}""", "new": """	for i := range desc.Methods {
		md := desc.Methods[i]
		h := handleMethod(svr, desc.ServiceName, &md, s.unaryInt, &s.opts)
		pattern := path.Join(s.basePath, fmt.Sprintf("%s/%s", desc.ServiceName, md.MethodName))
		s.mux.HandleFunc(pattern, h)
	}"""},
], "pattern bound to a local before registration", ["C12", "C15"])
silent_all("early-return-to-else", [
    {"file": "inprocgrpc/in_process.go", "old": """	if s.sendClosed {
		return fmt.Errorf("send closed")
	}
	if isNil(m) {
		return status.Errorf(codes.Internal, "message to send is nil")
	}

	m, err := s.cloner.Clone(m)
	if err != nil {
		return err
	}
	return writeMessage(s.ctx, s.svrCtx, s.requests, frame{data: m})""", "new": """	if s.sendClosed {
		return fmt.Errorf("send closed")
	} else if isNil(m) {
		return status.Errorf(codes.Internal, "message to send is nil")
	} else {
		m, err := s.cloner.Clone(m)
		if err != nil {
			return err
		}
		return writeMessage(s.ctx, s.svrCtx, s.requests, frame{data: m})
	}"""},
], "early returns turned into an if/else chain", ["C01", "C05", "C06", "C20"])

silent_all("rename-fields-and-methods", [
    {"file": "httpgrpc/server.go", "old": "headersSent", "new": "hdrSent", "all": True},
    {"file": "httpgrpc/server.go", "old": "writeFailed", "new": "wFailed", "all": True},
    {"file": "httpgrpc/client.go", "old": "doHttpCall", "new": "runCall", "all": True},
    {"file": "httpgrpc/client.go", "old": "rErr", "new": "termErr", "all": True},
    {"file": "inprocgrpc/in_process.go", "old": "finish(", "new": "complete(", "all": True},
    {"file": "inprocgrpc/in_process.go", "old": "sendClosed", "new": "halfClosed", "all": True},
    {"file": "inprocgrpc/in_process.go", "old": "onDone", "new": "signalDone", "all": True},
], "private fields and methods renamed", ["C01", "C02", "C03", "C04", "C05", "C07", "C08", "C11", "C20"])
silent_all("rename-generator-locals", [
    {"file": "cmd/protoc-gen-grpchan/protoc-gen-grpchan.go", "old": "streamCount", "new": "nStreams", "all": True},
    {"file": "cmd/protoc-gen-grpchan/protoc-gen-grpchan.go", "old": "makeTemplate", "new": "tmpl", "all": True},
], "generator locals renamed", ["C19", "C05"])
silent_all("rename-registry-internals", [
    {"file": "server.go", "old": "type service struct", "new": "type entry struct"},
    {"file": "server.go", "old": "map[string]service", "new": "map[string]entry"},
    {"file": "server.go", "old": "service{desc: desc, handler: h}", "new": "entry{desc: desc, handler: h}"},
], "registry entry type renamed", ["C15", "C12", "C01"])
silent_all("cloner-rename", [
    {"file": "inprocgrpc/cloner.go", "old": "funcCloner", "new": "fnCloner", "all": True},
    {"file": "inprocgrpc/cloner.go", "old": "copyFn", "new": "cp", "all": True},
    {"file": "inprocgrpc/cloner.go", "old": "cloneFn", "new": "cl", "all": True},
], "cloner internals renamed", ["C18", "C06"])

silent_all("probe-as-switch", [
    {"file": "inprocgrpc/in_process.go", "old": """	err := s.recvMsgLocked(mCopy, false)
	if err == nil {
		s.last = &frame{err: status.Error(codes.Internal, "method should return 1 response message but server sent >1")}
		s.state = streamStateClosed
		// we won't be reading from the channel anymore, so we must cancel the
		// context so that the server doesn't hang trying to send more messages
		s.cancel()
		return s.last.err
	}
	if err != io.EOF {
		// if server sent a failure after the single message, the failure takes precedence
		return err
	}
	return nil""", "new": """	switch err := s.recvMsgLocked(mCopy, false); err {
	case nil:
		s.last = &frame{err: status.Error(codes.Internal, "method should return 1 response message but server sent >1")}
		s.state = streamStateClosed
		s.cancel()
		return s.last.err
	case io.EOF:
		return nil
	default:
		// if server sent a failure after the single message, the failure takes precedence
		return err
	}"""},
], "probe discrimination written as a switch", ["C08", "C02", "C04", "C01"])
silent_all("creds-operands-swapped", [
    {"file": "internal/call_options.go", "old": "if copts.Creds.RequireTransportSecurity() && !isChannelSecure {", "new": "if !isChannelSecure && copts.Creds.RequireTransportSecurity() {"},
], "operands of && swapped", ["C13"])
silent_all("renderer-code-once", [
    {"file": "httpgrpc/server.go", "old": """	if (st.Code() == codes.Canceled || st.Code() == codes.DeadlineExceeded) && ctx.Err() != nil {
		http.Error(w, "Client Closed Request", 499)
		return
	}
	code := httpStatusFromCode(st.Code())""", "new": """	grpcCode := st.Code()
	if ctx.Err() != nil && (grpcCode == codes.Canceled || grpcCode == codes.DeadlineExceeded) {
		http.Error(w, "Client Closed Request", 499)
		return
	}
	code := httpStatusFromCode(grpcCode)"""},
], "status code read once; operands reordered", ["C14"])
silent_all("decorator-index-loops", [
    {"file": "intercept.go", "old": """		for i, md := range svcDesc.Methods {
			origHandler := md.Handler""", "new": """		for i := range svcDesc.Methods {
			md := svcDesc.Methods[i]
			origHandler := md.Handler"""},
], "range-with-value replaced by index loop + per-iteration copy", ["C16", "C12"])
silent_all("wrapper-via-local", [
    {"file": "inprocgrpc/in_process.go", "old": "	newCtx := context.Context(noValuesContext{ctx})", "new": "	base := noValuesContext{ctx}\n	var newCtx context.Context = base"},
], "wrapper constructed through a local", ["C10", "C04"])
silent_all("ctx-err-via-local", [
    {"file": "inprocgrpc/in_process.go", "old": """		case <-ctx.Done():
			return internal.TranslateContextError(ctx.Err())
		}
	}
}""", "new": """		case <-ctx.Done():
			ctxErr := ctx.Err()
			return internal.TranslateContextError(ctxErr)
		}
	}
}"""},
], "ctx.Err() bound to a local before translation", ["C04", "C02", "C08"])
silent_all("stream-info-in-closure", [
    {"file": "httpgrpc/server.go", "old": """	info := &grpc.StreamServerInfo{
		FullMethod:     fmt.Sprintf("/%s/%s", serviceName, desc.StreamName),
		IsClientStream: desc.ClientStreams,
		IsServerStream: desc.ServerStreams,
	}
	return func(w http.ResponseWriter, r *http.Request) {""", "new": """	fullMethod := fmt.Sprintf("/%s/%s", serviceName, desc.StreamName)
	return func(w http.ResponseWriter, r *http.Request) {
		info := &grpc.StreamServerInfo{
			FullMethod:     fullMethod,
			IsClientStream: desc.ClientStreams,
			IsServerStream: desc.ServerStreams,
		}"""},
], "stream info built per request from a precomputed name", ["C16", "C11", "C04"])
silent_all("finish-guard-clause", [
    {"file": "inprocgrpc/in_process.go", "old": """	s.trailers = nil

	if err != nil {
		// Like the standard transport, report an error that is not a status
		// error as one: the client would take a raw io.EOF for the normal
		// end of the stream.
		if _, ok := status.FromError(err); !ok {
			err = status.FromContextError(err).Err()
		}
		_ = writeMessage(s.ctx, nil, s.responses, frame{err: err})
	}
}""", "new": """	s.trailers = nil

	if err == nil {
		return
	}
	if _, ok := status.FromError(err); !ok {
		err = status.FromContextError(err).Err()
	}
	_ = writeMessage(s.ctx, nil, s.responses, frame{err: err})
}"""},
], "error frame behind a guard clause", ["C02", "C03", "C05"])
silent_all("size-check-order", [
    {"file": "httpgrpc/io.go", "old": """	if sz < 0 {
		return fmt.Errorf("bad size preface: size cannot be negative: %d", sz)
	} else if sz > maxMessageSize {
		return fmt.Errorf("bad size preface: indicated size is too large: %d", sz)
	}""", "new": """	if sz > maxMessageSize {
		return fmt.Errorf("bad size preface: indicated size is too large: %d", sz)
	}
	if sz < 0 {
		return fmt.Errorf("bad size preface: size cannot be negative: %d", sz)
	}"""},
], "the two size checks in the other order", ["C07", "C01"])

# ------------------------------------------------------------------ wave-2 rules
v("C05", "send-via-getter-outside-lock", "inprocgrpc/in_process.go",
  """func (s *inProcessClientStream) SendMsg(m interface{}) error {
	s.reqMu.Lock()
	defer s.reqMu.Unlock()

	if s.sendClosed {
		return fmt.Errorf("send closed")
	}
	if isNil(m) {""", """func (s *inProcessClientStream) reqChan() (chan<- frame, error) {
	s.reqMu.Lock()
	defer s.reqMu.Unlock()
	if s.sendClosed {
		return nil, fmt.Errorf("send closed")
	}
	return s.requests, nil
}

func (s *inProcessClientStream) SendMsg(m interface{}) error {
	ch, cerr := s.reqChan()
	if cerr != nil {
		return cerr
	}
	if isNil(m) {""", "R3", "send(inProcessClientStream.requests)", "the request channel is fetched under the lock by a getter but the send happens outside it: CloseSend racing SendMsg panics",
  edits=[{"file": "inprocgrpc/in_process.go", "old": """func (s *inProcessClientStream) SendMsg(m interface{}) error {
	s.reqMu.Lock()
	defer s.reqMu.Unlock()

	if s.sendClosed {
		return fmt.Errorf("send closed")
	}
	if isNil(m) {""", "new": """func (s *inProcessClientStream) reqChan() (chan<- frame, error) {
	s.reqMu.Lock()
	defer s.reqMu.Unlock()
	if s.sendClosed {
		return nil, fmt.Errorf("send closed")
	}
	return s.requests, nil
}

func (s *inProcessClientStream) SendMsg(m interface{}) error {
	ch, cerr := s.reqChan()
	if cerr != nil {
		return cerr
	}
	if isNil(m) {"""}, {"file": "inprocgrpc/in_process.go", "old": "	return writeMessage(s.ctx, s.svrCtx, s.requests, frame{data: m})", "new": "	return writeMessage(s.ctx, s.svrCtx, ch, frame{data: m})"}])
v("C05", "send-via-getter-under-lock", "", "", "", silent=True, why="the channel is fetched by a getter helper but lock and flag test stay in SendMsg: same behaviour",
  edits=[{"file": "inprocgrpc/in_process.go", "old": """func (s *inProcessClientStream) SendMsg(m interface{}) error {
	s.reqMu.Lock()""", "new": """func (s *inProcessClientStream) reqChan() chan<- frame {
	return s.requests
}

func (s *inProcessClientStream) SendMsg(m interface{}) error {
	s.reqMu.Lock()"""}, {"file": "inprocgrpc/in_process.go", "old": "	return writeMessage(s.ctx, s.svrCtx, s.requests, frame{data: m})", "new": "	return writeMessage(s.ctx, s.svrCtx, s.reqChan(), frame{data: m})"}])
v("C05", "ready-not-released-on-http-failure", "httpgrpc/client.go",
  """	md, err := asMetadata(reply.Header)
	if err != nil {
		onReady(err, nil)
		return
	}
""", """	md, err := asMetadata(reply.Header)
	if err != nil {
		rErr = err
		return
	}
""", "R8", "clientStream.ready", "a reply with undecodable headers ends the reader without releasing the WaitGroup: Header() blocks forever")
v("C05", "ready-released-twice", "httpgrpc/client.go",
  """	md, err := asMetadata(reply.Header)
	if err != nil {
		onReady(err, nil)
		return
	}
""", """	md, err := asMetadata(reply.Header)
	if err != nil {
		onReady(err, nil)
	}
""", "R8", "clientStream.ready", "missing return: onReady runs twice, WaitGroup counter goes negative (panic)")
v("C05", "ready-add-moved-to-caller", "", "", "", silent=True, why="Add(1) moved from the constructor to just before the go statement: same pairing",
  edits=[{"file": "httpgrpc/client.go", "old": "	cs.ready.Add(1)\n	return cs\n", "new": "	return cs\n"},
         {"file": "httpgrpc/client.go", "old": "	go cs.doHttpCall(ch.Transport, req, r)", "new": "	cs.ready.Add(1)\n	go cs.doHttpCall(ch.Transport, req, r)"}])

v("C06", "copy-fastpath-empty", "inprocgrpc/cloner.go",
  """	if inIsProto && outIsProto {
		return internal.CopyMessage(out, in)
	}""", """	if inIsProto && outIsProto {
		if reflect.TypeOf(in) == reflect.TypeOf(out) && reflect.ValueOf(in).Elem().IsZero() {
			return nil
		}
		return internal.CopyMessage(out, in)
	}""", "R5", "ProtoCloner).Copy", "zero message: copy skipped, destination keeps its previous content")
v("C06", "codec-copy-swapped", "inprocgrpc/cloner.go",
  "} else if err := codec.Unmarshal(b, out); err != nil {", "} else if err := codec.Unmarshal(b, in); err != nil {", "R5", "CodecCloner$1", "codec copy unmarshals into the source")
v("C06", "copymessage-args-swapped", "inprocgrpc/cloner.go",
  "		return internal.CopyMessage(out, in)", "		return internal.CopyMessage(in, out)", "R5", "ProtoCloner).Copy", "destination and source swapped in the delegated copy")
v("C06", "clonefunc-no-set", "inprocgrpc/cloner.go",
  "		dest.Set(src)\n		return nil\n", "		_ = src\n		return nil\n", "R5", "CloneFunc$1", "the shallow copy into out is dropped")
v("C06", "clone-returns-input-when-empty", "inprocgrpc/cloner.go",
  """	if _, isProto := in.(proto.Message); isProto {
		return internal.CloneMessage(in)
	}""", """	if pm, isProto := in.(proto.Message); isProto {
		if proto.Size(pm) == 0 {
			return in, nil
		}
		return internal.CloneMessage(in)
	}""", "R6", "ProtoCloner).Clone", "empty message is not cloned: the sender's object crosses")
v("C06", "copy-early-typecheck", "inprocgrpc/cloner.go",
  """	if inIsProto && outIsProto {
		return internal.CopyMessage(out, in)
	}""", """	if inIsProto && outIsProto {
		if out == nil {
			return fmt.Errorf("nil destination")
		}
		return internal.CopyMessage(out, in)
	}""", silent=True, why="an extra failing guard before the copy: success still implies the copy")

v("C03", "trailers-parked-no-option-fanout", "inprocgrpc/in_process.go",
  """			case kindTrailers:
				s.trailers = m.trailers
				s.copts.SetTrailers(s.trailers)
			case kindError:""", """			case kindTrailers:
				s.trailers = m.trailers
			case kindError:""", "R3", "Header:SetTrailers", "Header() that sees the trailers frame stores them but does not hand them to the grpc.Trailer options")
v("C03", "unary-sts-alias-first-header", "internal/transport_stream.go",
  """	if sts.hdrs == nil {
		sts.hdrs = metadata.MD{}
	}""", """	if sts.hdrs == nil {
		sts.hdrs = md
		return nil
	}""", "R7", "md-not-retained", "first SetHeader keeps the handler's map by reference")
v("C03", "inproc-trailer-slice-alias", "inprocgrpc/in_process.go",
  """	for k, v := range md {
		s.trailers[k] = append(s.trailers[k], v...)
	}
	return nil
}

func (s *inProcessServerStream) Context()""", """	for k, v := range md {
		if len(s.trailers[k]) == 0 {
			s.trailers[k] = v
		} else {
			s.trailers[k] = append(s.trailers[k], v...)
		}
	}
	return nil
}

func (s *inProcessServerStream) Context()""", "R7", "md-not-retained", "value slice of the handler's map stored by reference")
v("C03", "d15-trailer-md-by-reference", "httpgrpc/server.go",
  "	s.tr = append(s.tr, md.Copy())", "	s.tr = append(s.tr, md)", "R7", "serverStream).SetTrailer", "pre-fix D15")
v("C03", "trailer-join-at-call", "httpgrpc/server.go",
  "	s.tr = append(s.tr, md.Copy())", "	s.tr = append(s.tr, metadata.Join(md))", silent=True, why="joins (copies) at the call instead of Copy()")
v("C03", "asmetadata-split-comma", "httpgrpc/io.go",
  """			md[k] = append(md[k], v)
		}
	}
	return md, nil""", """			for _, part := range strings.Split(v, ",") {
				md[k] = append(md[k], part)
			}
		}
	}
	return md, nil""", "R8", "asMetadata", "header lines split on commas: values containing ',' are multiplied")
v("C03", "toheaders-trim", "httpgrpc/io.go",
  "			h.Add(prefix+k, v)", "			h.Add(prefix+k, strings.TrimSpace(v))", "R8", "toHeaders", "values trimmed on the way out")
v("C03", "asmetadata-lower-values", "httpgrpc/io.go",
  "			md[k] = append(md[k], v)\n		}\n	}\n	return md, nil", "			md[k] = append(md[k], strings.ToLower(v))\n		}\n	}\n	return md, nil", "R8", "asMetadata", "values case-folded")
v("C03", "asmetadata-prealloc", "httpgrpc/io.go",
  "	md := metadata.MD{}\n	for k, vs := range header {", "	md := make(metadata.MD, len(header))\n	for k, vs := range header {", silent=True, why="pre-sized map: same conversion")

v("C01", "global-buffer-pool", "httpgrpc/io.go",
  "var reservedHeaders = map[string]struct{}{", "var framePool = sync.Pool{New: func() interface{} { return new(bytes.Buffer) }}\n\nvar reservedHeaders = map[string]struct{}{", "R1", "global:httpgrpc.framePool", "a process-wide buffer pool in the transport package",
  edits=[{"file": "httpgrpc/io.go", "old": "var reservedHeaders = map[string]struct{}{", "new": "var framePool = sync.Pool{New: func() interface{} { return new(bytes.Buffer) }}\n\nvar reservedHeaders = map[string]struct{}{"},
         {"file": "httpgrpc/io.go", "old": "import (\n", "new": "import (\n	\"bytes\"\n	\"sync\"\n"}])
v("C01", "global-scratch-array", "httpgrpc/io.go",
  "var reservedHeaders = map[string]struct{}{", "var prefaceScratch [4]byte\n\nvar reservedHeaders = map[string]struct{}{", "R1", "global:httpgrpc.prefaceScratch", "a shared scratch array for size prefaces")
v("C01", "channel-field-pool", "httpgrpc/client.go",
  "type Channel struct {\n", "type Channel struct {\n	bufs sync.Pool\n", "R1", "no-per-call-fields", "a buffer pool on the long-lived channel",
  edits=[{"file": "httpgrpc/client.go", "old": "type Channel struct {\n", "new": "type Channel struct {\n	bufs sync.Pool\n"},
         ])
v("C01", "global-const-string", "httpgrpc/io.go",
  "var reservedHeaders = map[string]struct{}{", "var binSuffix = \"-bin\"\n\nvar reservedHeaders = map[string]struct{}{", silent=True, why="an immutable string global")
v("C01", "copy-fastpath-empty", "inprocgrpc/cloner.go",
  """	if inIsProto && outIsProto {
		return internal.CopyMessage(out, in)
	}""", """	if inIsProto && outIsProto {
		if reflect.TypeOf(in) == reflect.TypeOf(out) && reflect.ValueOf(in).Elem().IsZero() {
			return nil
		}
		return internal.CopyMessage(out, in)
	}""", "R6", "ProtoCloner).Copy", "zero message: the receiver keeps stale content instead of the (empty) message sent")
PROBE_OLD = """				if err != io.EOF {
					return err
				}
			}
		}
		return nil"""
PROBE_NEW = """				if _, isStatus := status.FromError(err); isStatus {
					return err
				}
			}
		}
		return nil"""
v("C02", "probe-swallows-transport-error", "httpgrpc/client.go", PROBE_OLD, PROBE_NEW, "R1", "only-eof-is-success",
  "single-response probe: only status errors are returned, a transport error (reply cut before the trailer) becomes success")
v("C07", "probe-swallows-transport-error", "httpgrpc/client.go", PROBE_OLD, PROBE_NEW, "R2", "only-eof-is-success",
  "a single-response reply cut before the end of the trailer is reported as success")
v("C04", "shadowed-reader-error", "httpgrpc/client.go",
  """		_, rErr = io.ReadAtLeast(reply.Body, msg, int(sz))
		if rErr != nil {
			if rErr == io.EOF {
				rErr = io.ErrUnexpectedEOF
			}
			return
		}
""", """		if _, rErr := io.ReadAtLeast(reply.Body, msg, int(sz)); rErr != nil {
			return
		}
""", "R6", "doHttpCall", "the read error is assigned to a shadowing variable: a context end in the middle of a message body ends the stream with OK")
v("C04", "trailer-dropped-when-ctx-done", "httpgrpc/server.go",
  "		if str.writeFailed {\n			// nothing else we can do", "		if str.writeFailed || ctx.Err() != nil {\n			// nothing else we can do", "R6", "one-trailer",
  "server drops the trailer when its (timeout-derived) context is done: the handler's DeadlineExceeded never reaches the client")

C09_OLD = '\ttimeout := h.Get("GRPC-Timeout")\n\tif timeout != "" {\n\t\t// See GRPC wire format, "Timeout" component of request: https://grpc.io/docs/guides/wire.html#requests\n\t\tsuffix := timeout[len(timeout)-1]\n\t\tif timeoutVal, err := strconv.ParseInt(timeout[:len(timeout)-1], 10, 64); err == nil {\n\t\t\tvar unit time.Duration\n\t\t\tswitch suffix {\n\t\t\tcase \'H\':\n\t\t\t\tunit = time.Hour\n\t\t\tcase \'M\':\n\t\t\t\tunit = time.Minute\n\t\t\tcase \'S\':\n\t\t\t\tunit = time.Second\n\t\t\tcase \'m\':\n\t\t\t\tunit = time.Millisecond\n\t\t\tcase \'u\':\n\t\t\t\tunit = time.Microsecond\n\t\t\tcase \'n\':\n\t\t\t\tunit = time.Nanosecond\n\t\t\t}\n\t\t\tif unit != 0 {\n\t\t\t\t// saturate instead of wrapping around for huge values\n\t\t\t\td := time.Duration(math.MaxInt64)\n\t\t\t\tif timeoutVal <= math.MaxInt64/int64(unit) {\n\t\t\t\t\td = time.Duration(timeoutVal) * unit\n\t\t\t\t}\n\t\t\t\tctx, cancel = context.WithTimeout(ctx, d)\n\t\t\t}\n\t\t}\n\t}\n\treturn ctx, cancel, nil\n}'
v("C09", "timeout-parse-helper-ok", "httpgrpc/server.go", C09_OLD, '\tif d, ok := parseTimeout(h.Get("GRPC-Timeout")); ok {\n\t\tctx, cancel = context.WithTimeout(ctx, d)\n\t}\n\treturn ctx, cancel, nil\n}\n\n// parseTimeout decodes the value of a GRPC-Timeout header; ok is false if the\n// header is absent or is not a well-formed timeout.\nfunc parseTimeout(timeout string) (time.Duration, bool) {\n\tif timeout == "" {\n\t\treturn 0, false\n\t}\n\tsuffix := timeout[len(timeout)-1]\n\ttimeoutVal, err := strconv.ParseInt(timeout[:len(timeout)-1], 10, 64)\n\tif err != nil {\n\t\treturn 0, false\n\t}\n\tvar unit time.Duration\n\tswitch suffix {\n\tcase \'H\':\n\t\tunit = time.Hour\n\tcase \'M\':\n\t\tunit = time.Minute\n\tcase \'S\':\n\t\tunit = time.Second\n\tcase \'m\':\n\t\tunit = time.Millisecond\n\tcase \'u\':\n\t\tunit = time.Microsecond\n\tcase \'n\':\n\t\tunit = time.Nanosecond\n\tdefault:\n\t\treturn 0, false\n\t}\n\t// saturate instead of wrapping around for huge values\n\tif timeoutVal > math.MaxInt64/int64(unit) {\n\t\treturn time.Duration(math.MaxInt64), true\n\t}\n\treturn time.Duration(timeoutVal) * unit, true\n}', silent=True, why="the header parsing moved into a helper returning (duration, ok): same behaviour")
v("C09", "timeout-parse-helper-zero-absent", "httpgrpc/server.go", C09_OLD, '\tif d := parseTimeout(h.Get("GRPC-Timeout")); d != 0 {\n\t\tctx, cancel = context.WithTimeout(ctx, d)\n\t}\n\treturn ctx, cancel, nil\n}\n\n// parseTimeout decodes the value of a GRPC-Timeout header; ok is false if the\n// header is absent or is not a well-formed timeout.\nfunc parseTimeout(timeout string) time.Duration {\n\tif timeout == "" {\n\t\treturn 0\n\t}\n\tsuffix := timeout[len(timeout)-1]\n\ttimeoutVal, err := strconv.ParseInt(timeout[:len(timeout)-1], 10, 64)\n\tif err != nil {\n\t\treturn 0\n\t}\n\tvar unit time.Duration\n\tswitch suffix {\n\tcase \'H\':\n\t\tunit = time.Hour\n\tcase \'M\':\n\t\tunit = time.Minute\n\tcase \'S\':\n\t\tunit = time.Second\n\tcase \'m\':\n\t\tunit = time.Millisecond\n\tcase \'u\':\n\t\tunit = time.Microsecond\n\tcase \'n\':\n\t\tunit = time.Nanosecond\n\tdefault:\n\t\treturn 0\n\t}\n\t// saturate instead of wrapping around for huge values\n\tif timeoutVal > math.MaxInt64/int64(unit) {\n\t\treturn time.Duration(math.MaxInt64)\n\t}\n\treturn time.Duration(timeoutVal) * unit\n}', "R4", "zero-means-absent", "helper returns 0 for absent/malformed and the caller tests d != 0: a valid zero timeout gives the handler no deadline")
v("C09", "timeout-zero-skipped-inline", "httpgrpc/server.go", C09_OLD, '\ttimeout := h.Get("GRPC-Timeout")\n\tif timeout != "" {\n\t\t// See GRPC wire format, "Timeout" component of request: https://grpc.io/docs/guides/wire.html#requests\n\t\tsuffix := timeout[len(timeout)-1]\n\t\tif timeoutVal, err := strconv.ParseInt(timeout[:len(timeout)-1], 10, 64); err == nil {\n\t\t\tvar unit time.Duration\n\t\t\tswitch suffix {\n\t\t\tcase \'H\':\n\t\t\t\tunit = time.Hour\n\t\t\tcase \'M\':\n\t\t\t\tunit = time.Minute\n\t\t\tcase \'S\':\n\t\t\t\tunit = time.Second\n\t\t\tcase \'m\':\n\t\t\t\tunit = time.Millisecond\n\t\t\tcase \'u\':\n\t\t\t\tunit = time.Microsecond\n\t\t\tcase \'n\':\n\t\t\t\tunit = time.Nanosecond\n\t\t\t}\n\t\t\tif unit != 0 {\n\t\t\t\t// saturate instead of wrapping around for huge values\n\t\t\t\td := time.Duration(math.MaxInt64)\n\t\t\t\tif timeoutVal <= math.MaxInt64/int64(unit) {\n\t\t\t\t\td = time.Duration(timeoutVal) * unit\n\t\t\t\t}\n\t\t\t\tif d > 0 {\n\t\t\t\t\tctx, cancel = context.WithTimeout(ctx, d)\n\t\t\t\t}\n\t\t\t}\n\t\t}\n\t}\n\treturn ctx, cancel, nil\n}', "R4", "deadline-for-every-valid-value", "the deadline is applied only if d > 0")
v("C09", "client-seconds-roundup", "httpgrpc/client.go",
  "		h.Set(\"GRPC-Timeout\", fmt.Sprintf(\"%dm\", millis))", """		value, unit := millis, "m"
		if value > 99999999 {
			value, unit = (millis+999)/1000, "S"
		}
		h.Set("GRPC-Timeout", fmt.Sprintf("%d%s", value, unit))""", "R3", "floor", "long deadlines sent in seconds rounded up: the handler gets up to 1 s more than the caller has")
v("C09", "client-seconds-floor", "httpgrpc/client.go",
  "		h.Set(\"GRPC-Timeout\", fmt.Sprintf(\"%dm\", millis))", """		value, unit := millis, "m"
		if value > 99999999 {
			value, unit = millis/1000, "S"
		}
		h.Set("GRPC-Timeout", fmt.Sprintf("%d%s", value, unit))""", silent=True, why="long deadlines sent in whole seconds, floored: never later than the caller's")
v("C09", "client-seconds-wrong-letter", "httpgrpc/client.go",
  "		h.Set(\"GRPC-Timeout\", fmt.Sprintf(\"%dm\", millis))", """		value, unit := millis, "m"
		if value > 99999999 {
			value, unit = millis/1000, "M"
		}
		h.Set("GRPC-Timeout", fmt.Sprintf("%d%s", value, unit))""", "R2", "unit-agreement:M", "seconds sent with the minutes letter")

# ------------------------------------------------------------------ wave-2 rules (C08-C14) and D16
v("C02", "d16-raw-handler-error-in-frame", "inprocgrpc/in_process.go",
  """		if _, ok := status.FromError(err); !ok {
			err = status.FromContextError(err).Err()
		}
		_ = writeMessage(s.ctx, nil, s.responses, frame{err: err})""", """		_ = writeMessage(s.ctx, nil, s.responses, frame{err: err})""", "R5", "error-frame:is-status-error", "pre-fix D16: a handler's io.EOF ends the client's stream with the success sentinel")
v("C02", "error-frame-convert-negated-form", "inprocgrpc/in_process.go",
  """		if _, ok := status.FromError(err); !ok {
			err = status.FromContextError(err).Err()
		}
		_ = writeMessage(s.ctx, nil, s.responses, frame{err: err})""", """		if _, isStatus := status.FromError(err); isStatus {
			// already a status error
		} else {
			err = status.FromContextError(err).Err()
		}
		_ = writeMessage(s.ctx, nil, s.responses, frame{err: err})""", silent=True, why="same conversion, written with the positive test and an empty arm")
v("C02", "status-message-escaped-one-side", "httpgrpc/server.go",
  """fmt.Sprintf("%d:%s", statProto.Code, statProto.Message)""", """fmt.Sprintf("%d:%s", statProto.Code, url.PathEscape(statProto.Message))""", "R3", "codec-agreement", "server escapes the status message, client takes it verbatim",
  edits=[{"file": "httpgrpc/server.go", "old": """fmt.Sprintf("%d:%s", statProto.Code, statProto.Message)""", "new": """fmt.Sprintf("%d:%s", statProto.Code, url.PathEscape(statProto.Message))"""},
         {"file": "httpgrpc/server.go", "old": "import (\n", "new": "import (\n	\"net/url\"\n"}])
v("C02", "status-message-escaped-both-sides", "", "", "", silent=True, why="server escapes and client unescapes with the inverse function",
  edits=[{"file": "httpgrpc/server.go", "old": """fmt.Sprintf("%d:%s", statProto.Code, statProto.Message)""", "new": """fmt.Sprintf("%d:%s", statProto.Code, url.PathEscape(statProto.Message))"""},
         {"file": "httpgrpc/server.go", "old": "import (\n", "new": "import (\n	\"net/url\"\n"},
         {"file": "httpgrpc/client.go", "old": """		if len(codeStrs) > 1 {
			msg = codeStrs[1]
		}""", "new": """		if len(codeStrs) > 1 {
			if m, uerr := url.PathUnescape(codeStrs[1]); uerr == nil {
				msg = m
			}
		}"""}])
v("C02", "status-message-trimmed-client", "httpgrpc/client.go",
  "			msg = codeStrs[1]", "			msg = strings.TrimSpace(codeStrs[1])", "R3", "statFromResponse:message-verbatim", "client trims the status message")

v("C08", "probe-on-raw-body-after-bufio", "", "", "", "R3", "one-reader", "messages read through a bufio.Reader, the second-request probe from the raw body",
  edits=[{"file": "httpgrpc/server.go", "old": "	size, err := readSizePreface(s.r.Body)\n	if err != nil {\n		return err\n	}\n\n	err = readProtoMessage(s.r.Body, s.codec, size, m)", "new": "	br := bufio.NewReader(s.r.Body)\n	size, err := readSizePreface(br)\n	if err != nil {\n		return err\n	}\n\n	err = readProtoMessage(br, s.codec, size, m)"},
         {"file": "httpgrpc/server.go", "old": "import (\n", "new": "import (\n	\"bufio\"\n"}])
v("C08", "body-in-local-variable", "httpgrpc/server.go",
  "	size, err := readSizePreface(s.r.Body)\n	if err != nil {\n		return err\n	}\n\n	err = readProtoMessage(s.r.Body, s.codec, size, m)", "	body := s.r.Body\n	size, err := readSizePreface(body)\n	if err != nil {\n		return err\n	}\n\n	err = readProtoMessage(body, s.codec, size, m)", silent=True, why="the body is held in a local for the first two reads: still one reader")

v("C11", "cancel-deferred-before-error-check", "", "", "", "R7", "call-of-result", "contextFromHeaders returns a nil cancel on error and the handlers defer it before checking the error",
  edits=[{"file": "httpgrpc/server.go", "old": "		return parent, cancel, err\n", "new": "		return nil, nil, err\n"},
         {"file": "httpgrpc/server.go", "old": """		ctx, cancel, err := contextFromHeaders(ctx, r.Header)
		if err != nil {
			writeError(w, http.StatusBadRequest)
			return
		}
		defer cancel()

		req, err := ioutil.ReadAll(r.Body)""", "new": """		ctx, cancel, err := contextFromHeaders(ctx, r.Header)
		defer cancel()
		if err != nil {
			writeError(w, http.StatusBadRequest)
			return
		}

		req, err := ioutil.ReadAll(r.Body)"""}])
v("C11", "nil-cancel-on-error-but-checked-first", "httpgrpc/server.go",
  "		return parent, cancel, err\n", "		return nil, nil, err\n", silent=True, why="nil cancel is returned only with an error, and both handlers check the error before deferring it")
v("C11", "json-empty-body-accepted", "httpgrpc/json.go",
  """	msg := proto.MessageV2(v.(proto.Message))
	return grpcJsonUnmarshaler.Unmarshal(data, msg)""", """	msg := proto.MessageV2(v.(proto.Message))
	if len(data) == 0 {
		return nil
	}
	return grpcJsonUnmarshaler.Unmarshal(data, msg)""", "R8", "jsonCodec).Unmarshal", "empty body accepted as an empty message by the JSON codec")
v("C11", "json-unmarshal-via-local", "httpgrpc/json.go",
  """	return grpcJsonUnmarshaler.Unmarshal(data, msg)""", """	err := grpcJsonUnmarshaler.Unmarshal(data, msg)
	if err != nil {
		return err
	}
	return nil""", silent=True, why="same decode, error handled through a local")

v("C13", "peer-only-with-header-option", "httpgrpc/client.go",
  """	if len(copts.Peer) > 0 {
		copts.SetPeer(getPeer(ch.BaseURL, reply.TLS))
	}

	// gather headers and trailers
	if len(copts.Headers) > 0 || len(copts.Trailers) > 0 {""", """	// gather peer, headers and trailers
	if len(copts.Headers) > 0 || len(copts.Trailers) > 0 {
		copts.SetPeer(getPeer(ch.BaseURL, reply.TLS))""", "R3", "peer-option-alone-suffices", "unary: the peer is reported only when a header or trailer option is present too")
v("C13", "peer-set-unconditionally", "httpgrpc/client.go",
  """	if len(copts.Peer) > 0 {
		copts.SetPeer(getPeer(ch.BaseURL, reply.TLS))
	}

	// gather headers and trailers""", """	copts.SetPeer(getPeer(ch.BaseURL, reply.TLS))

	// gather headers and trailers""", silent=True, why="SetPeer with no targets is a no-op: unconditional call")

v("C14", "fallback-only-for-4xx-5xx", "httpgrpc/client.go",
  "	code := codeFromHttpStatus(reply.StatusCode)\n", "	code := codes.OK\n	if reply.StatusCode >= 400 {\n		code = codeFromHttpStatus(reply.StatusCode)\n	}\n", "R3", "fallback-for-every-status", "headerless 1xx/3xx replies classified OK")
v("C14", "fallback-via-local", "httpgrpc/client.go",
  "	code := codeFromHttpStatus(reply.StatusCode)\n", "	httpStatus := reply.StatusCode\n	code := codeFromHttpStatus(httpStatus)\n", silent=True, why="status code held in a local")

silent_all("d16-repaired-on-the-receiving-side", [
    {"file": "inprocgrpc/in_process.go", "old": """		if _, ok := status.FromError(err); !ok {
			err = status.FromContextError(err).Err()
		}
		_ = writeMessage(s.ctx, nil, s.responses, frame{err: err})""", "new": """		_ = writeMessage(s.ctx, nil, s.responses, frame{err: err})"""},
    {"file": "inprocgrpc/in_process.go", "old": "			return internal.TranslateContextError(s.last.err)\n		}\n	}\n\n	for {", "new": "			return frameErr(s.last.err)\n		}\n	}\n\n	for {"},
    {"file": "inprocgrpc/in_process.go", "old": "			s.last = &r\n			return internal.TranslateContextError(r.err)", "new": "			s.last = &r\n			return frameErr(r.err)"},
    {"file": "inprocgrpc/in_process.go", "old": "func (s *inProcessClientStream) RecvMsg(m interface{}) error {", "new": """func frameErr(e error) error {
	e = internal.TranslateContextError(e)
	if _, ok := status.FromError(e); !ok {
		e = status.FromContextError(e).Err()
	}
	return e
}

func (s *inProcessClientStream) RecvMsg(m interface{}) error {"""},
], "the D16 conversion done by the client stream when it returns a frame's error instead of by the server before sending", ["C02", "C04", "C05", "C08"])

v("C04", "finish-converts-with-convert", "inprocgrpc/in_process.go",
  "			err = status.FromContextError(err).Err()", "			err = status.Convert(err).Err()",
  "R4", "conversion-knows-context-errors", "the D16 conversion done with status.Convert: the handler's own ctx.Err() becomes Unknown")
silent_all("finish-translates-then-converts", [
    {"file": "inprocgrpc/in_process.go", "old": "			err = status.FromContextError(err).Err()", "new": "			err = status.Convert(internal.TranslateContextError(err)).Err()"},
], "translator first, then status.Convert: equivalent to FromContextError", ["C04", "C02"])

v("C10", "d18-unary-snapshot-on-goroutine", "inprocgrpc/in_process.go",
  "		ctx := grpc.NewContextWithServerTransportStream(svrCtx, &sts)", "		_ = svrCtx\n		ctx := grpc.NewContextWithServerTransportStream(makeServerContext(ctx), &sts)",
  "R3", "md-snapshot-before-return", "pre-fix D18: the unary handler's context is built on the server goroutine")
v("C10", "stream-snapshot-on-goroutine", "inprocgrpc/in_process.go",
  "		serverStream.ctx = grpc.NewContextWithServerTransportStream(svrCtx, sts)", "		serverStream.ctx = grpc.NewContextWithServerTransportStream(makeServerContext(svrCtx), sts)",
  "R3", "md-snapshot-before-return", "the stream handler's context wrapped (again) on the server goroutine")
v("C10", "accessor-unwraps-to-outermost", "inprocgrpc/in_process.go",
  """	if clientCtx, ok := ctx.Value(&clientContextKey).(context.Context); ok {
		return clientCtx
	}
	return nil""", """	var orig context.Context
	for {
		clientCtx, ok := ctx.Value(&clientContextKey).(context.Context)
		if !ok {
			return orig
		}
		orig, ctx = clientCtx, clientCtx
	}""", "R4", "accessor-single-lookup", "ClientContext loops to the outermost caller")
silent_all("server-context-built-by-deferred-free-helper", [
    {"file": "inprocgrpc/in_process.go", "old": "	svrCtx := makeServerContext(ctx)\n\n	defer cancel()", "new": "	svrCtx := handlerContext(ctx)\n\n	defer cancel()"},
    {"file": "inprocgrpc/in_process.go", "old": "func makeServerContext(ctx context.Context) context.Context {", "new": """func handlerContext(ctx context.Context) context.Context {
	return makeServerContext(ctx)
}

func makeServerContext(ctx context.Context) context.Context {"""},
], "the unary path builds the server context through one more synchronous helper", ["C10", "C04", "C13"])

v("C16", "inproc-info-raw-method", "inprocgrpc/in_process.go",
  """	if method == "" || method[0] != '/' {
		method = "/" + method
	}
	ctx, err := internal.ApplyPerRPCCreds(ctx, copts, fmt.Sprintf("inproc:0%s", method), true)
	if err != nil {
		return nil, err
	}

	strs := strings.SplitN(method[1:], "/", 2)
	if len(strs) != 2 {
		return nil, status.Errorf(codes.Unimplemented, "malformed method name: %q", method)
	}
	// The given StreamDesc""", """	full := method
	if full == "" || full[0] != '/' {
		full = "/" + full
	}
	ctx, err := internal.ApplyPerRPCCreds(ctx, copts, fmt.Sprintf("inproc:0%s", full), true)
	if err != nil {
		return nil, err
	}

	strs := strings.SplitN(full[1:], "/", 2)
	if len(strs) != 2 {
		return nil, status.Errorf(codes.Unimplemented, "malformed method name: %q", method)
	}
	// The given StreamDesc""", "R3", "full-method", "the normalised name lives in a second variable; the stream info still gets the raw parameter")

v("C08", "second-message-error-only-if-not-done", "httpgrpc/client.go",
  """					if cs.rErr == nil {
						cs.rErr = status.Error(codes.Internal, "method should return 1 response message but server sent >1")""", """					if !cs.done {
						cs.rErr = status.Error(codes.Internal, "method should return 1 response message but server sent >1")""",
  "R1", "second-message-is-error", "the >1-response error is recorded only while the call is in flight: after a complete reply, return cs.rErr is nil")
v("C08", "server-empty-message-fast-path", "httpgrpc/server.go",
  """	err = readProtoMessage(s.r.Body, s.codec, size, m)
	if err == io.EOF {""", """	if size == 0 {
		return s.codec.Unmarshal(nil, m)
	}
	err = readProtoMessage(s.r.Body, s.codec, size, m)
	if err == io.EOF {""", "R3", "no-success-before-probe", "an empty request returns before the second-request probe")
silent_all("second-message-error-guard-clause", [
    {"file": "httpgrpc/client.go", "old": """					if cs.rErr == nil {
						cs.rErr = status.Error(codes.Internal, "method should return 1 response message but server sent >1")
						cs.done = true
						// we won't be reading from the channel anymore, so we must
						// cancel the context so that doHttpCall doesn't hang trying
						// to write to channel
						cs.cancel()
					}
					return cs.rErr""", "new": """					if cs.rErr != nil {
						return cs.rErr
					}
					cs.rErr = status.Error(codes.Internal, "method should return 1 response message but server sent >1")
					cs.done = true
					cs.cancel()
					return cs.rErr"""},
], "the >1-response branch written with a guard clause", ["C08", "C02", "C05", "C07"])

v("C07", "closure-by-nil-element", "httpgrpc/client.go", None, None, "R4", "closure-by-ok", "the end of the reply is inferred from a nil element, and an empty message is sent as nil", edits=[
    {"file": "httpgrpc/client.go", "old": """	case msg, ok := <-cs.rCh:
		if !ok {
			done, err := cs.readErrorIfDone()""", "new": """	case msg := <-cs.rCh:
		if msg == nil {
			done, err := cs.readErrorIfDone()"""},
    {"file": "httpgrpc/client.go", "old": """		msg := make([]byte, sz)
		_, rErr = io.ReadAtLeast(reply.Body, msg, int(sz))
		if rErr != nil {
			if rErr == io.EOF {
				rErr = io.ErrUnexpectedEOF
			}
			return
		}
""", "new": """		var msg []byte
		if sz > 0 {
			msg = make([]byte, sz)
			_, rErr = io.ReadAtLeast(reply.Body, msg, int(sz))
			if rErr != nil {
				if rErr == io.EOF {
					rErr = io.ErrUnexpectedEOF
				}
				return
			}
		}
"""},
])
silent_all("closure-by-nil-element-senders-never-nil", [
    {"file": "httpgrpc/client.go", "old": """	case msg, ok := <-cs.rCh:
		if !ok {
			done, err := cs.readErrorIfDone()""", "new": """	case msg := <-cs.rCh:
		if msg == nil {
			done, err := cs.readErrorIfDone()"""},
], "closure inferred from a nil element while every sender sends make([]byte, n): equivalent", ["C07", "C08", "C02", "C05", "C11"])

v("C02", "status-message-taken-only-if-nonempty", "httpgrpc/client.go",
  """		if len(codeStrs) > 1 {
			msg = codeStrs[1]
		}""", """		if len(codeStrs) > 1 && codeStrs[1] != "" {
			msg = codeStrs[1]
		}""", "R3", "presence-not-content", "the parsed status message replaces the HTTP status text only if non-empty")
v("C02", "status-message-taken-only-if-nonempty-in-helper", "httpgrpc/client.go",
  """		if len(codeStrs) > 1 {
			msg = codeStrs[1]
		}""", """		if len(codeStrs) > 1 && len(codeStrs[1]) > 0 {
			msg = codeStrs[1]
		}""", "R3", "presence-not-content", "the same inside the extracted helper of refactoring C2-r1", patch="refactors/C2-r1/patch.diff")

v("C03", "trailer-accessor-decodes-on-its-own", "httpgrpc/client.go",
  """		return metadataFromProto(cs.tr.Metadata)
	}
	return nil""", """		md := metadataFromProto(cs.tr.Metadata)
		for k, vs := range md {
			if strings.HasSuffix(k, "-bin") {
				out := make([]string, len(vs))
				for i, v := range vs {
					out[i] = strings.TrimRight(v, "=")
				}
				md[k] = out
			}
		}
		return md
	}
	return nil""", "R4", "result-not-rewritten", "Trailer() post-processes the converter's result; the Trailer call option gets the raw one")

v("C05", "send-waits-behind-receive", "inprocgrpc/in_process.go",
  """func (s *inProcessClientStream) SendMsg(m interface{}) error {
	s.reqMu.Lock()""", """func (s *inProcessClientStream) finished() bool {
	s.respMu.Lock()
	defer s.respMu.Unlock()
	return s.state == streamStateClosed
}

func (s *inProcessClientStream) SendMsg(m interface{}) error {
	if s.finished() {
		return io.EOF
	}
	s.reqMu.Lock()""", "R4", "send-does-not-wait-for-receive", "SendMsg consults the receive side's state under respMu, which RecvMsg holds while blocked")

v("C18", "some-message-pairs-go-through-the-codec", "inprocgrpc/cloner.go", None, None, "R2", "message-pair-takes-the-checked-copy", "a class of proto messages is routed to the codec round trip, which checks no types", edits=[
    {"file": "inprocgrpc/cloner.go", "old": "	if inIsProto && outIsProto {\n		return internal.CopyMessage(out, in)", "new": "	if inIsProto && outIsProto && !hasXXX(out) {\n		return internal.CopyMessage(out, in)"},
    {"file": "inprocgrpc/cloner.go", "old": "func (ProtoCloner) Clone(in interface{}) (interface{}, error) {", "new": """func hasXXX(m interface{}) bool {
	_, ok := m.(interface{ XXX_WellKnownType() string })
	return ok
}

func (ProtoCloner) Clone(in interface{}) (interface{}, error) {"""},
])

v("C19", "methodless-service-skipped", "cmd/protoc-gen-grpchan/protoc-gen-grpchan.go",
  """	for _, sd := range fd.GetServices() {
		svcName := names.CamelCase(sd.GetName())""", """	for _, sd := range fd.GetServices() {
		if len(sd.GetMethods()) == 0 {
			continue
		}
		svcName := names.CamelCase(sd.GetName())""", "R2", "registration-for-every-service", "a service without methods gets no registration function")
v("C20", "client-send-without-peer-done-arm", "inprocgrpc/in_process.go",
  "	return writeMessage(s.ctx, s.svrCtx, s.requests, frame{data: m})", """	var peerDone context.Context
	if s.responseStream {
		peerDone = s.svrCtx
	}
	return writeMessage(s.ctx, peerDone, s.requests, frame{data: m})""", "R5", "selects-on-peer-done", "the server-done arm is dropped for some methods")
v("C20", "client-send-same-context-twice", "inprocgrpc/in_process.go",
  "	return writeMessage(s.ctx, s.svrCtx, s.requests, frame{data: m})", "	return writeMessage(s.ctx, s.ctx, s.requests, frame{data: m})", "R5", "two-different-contexts", "the call's context is passed in the server-done position")
v("C20", "header-accessor-keeps-receiving", "inprocgrpc/in_process.go",
  """			s.state = streamStateMessages
			switch m.kind() {
			case kindHeaders:
				s.headers = m.headers""", """			switch m.kind() {
			case kindHeaders:
				s.state = streamStateMessages
				s.headers = m.headers""", "R6", "leaves-the-receiving-state", "Header() stays in the header-waiting state when it sets a non-header frame aside")

v("C11", "server-payload-eof-raw", "httpgrpc/server.go",
  """	if err == io.EOF {
		return io.ErrUnexpectedEOF
	} else if err != nil {
		return err
	}

	if !s.respStream {""", """	if err != nil {
		return err
	}

	if !s.respStream {""", "R5", "payload-eof", "a streaming request truncated inside a message reaches the handler as a clean end of the request stream")
v("C11", "timeout-unit-array", "httpgrpc/server.go",
  """		suffix := timeout[len(timeout)-1]""", """		suffix := timeout[len(timeout)-1]
		_ = [...]int{'u': 1}[suffix]""", "R9", "contextFromHeaders", "a fixed array indexed by the unit byte: bytes above 'u' panic inside the handler")
v("C12", "lookup-cache-shared-by-both-kinds", "inprocgrpc/in_process.go", None, None, "R1", "unchecked", "a per-channel lookup cache shared by unary and streaming entries, values asserted unchecked", patch="seeded/C12-w3-m1/patch.diff", edits=[
    {"file": "inprocgrpc/in_process.go", "old": "var clientContextKey = \"holds a client context\"", "new": "var clientContextKey = \"holds a client context\" // unchanged"},
])
v("C15", "registry-lock-not-deferred", "httpgrpc/server.go", None, None, "R4", "released-if-callee-panics", "the registration is bracketed by Lock/Unlock without defer: a refusal (panic) leaves the mutex locked", edits=[
    {"file": "httpgrpc/server.go", "old": "	s.handlers.RegisterService(desc, svr)", "new": "	regMu.Lock()\n	s.handlers.RegisterService(desc, svr)\n	regMu.Unlock()"},
    {"file": "httpgrpc/server.go", "old": "func (s *Server) RegisterService(", "new": "var regMu sync.Mutex\n\nfunc (s *Server) RegisterService("},
])
silent_all("registry-lock-deferred", [
    {"file": "httpgrpc/server.go", "old": "	s.handlers.RegisterService(desc, svr)", "new": "	regMu.Lock()\n	defer regMu.Unlock()\n	s.handlers.RegisterService(desc, svr)"},
    {"file": "httpgrpc/server.go", "old": "func (s *Server) RegisterService(", "new": "var regMu sync.Mutex\n\nfunc (s *Server) RegisterService("},
], "the registration under a package mutex released by defer", ["C15", "C05", "C12", "C11"])
v("C09", "metadata-assigned-after-timeout", "httpgrpc/client.go", None, None, "R1", "transport-timeout-wins", "the timeout is stored first and the metadata converter assigns whole value slices afterwards", edits=[
    {"file": "httpgrpc/client.go", "old": """	h := http.Header{}
	if md, ok := metadata.FromOutgoingContext(ctx); ok {
		toHeaders(md, h, "")
	}
	if deadline, ok := ctx.Deadline(); ok {
		timeout := time.Until(deadline)
		millis := int64(timeout / time.Millisecond)
		if millis <= 0 {
			millis = 1
		}
		h.Set("GRPC-Timeout", fmt.Sprintf("%dm", millis))
	}
	return h""", "new": """	h := http.Header{}
	if deadline, ok := ctx.Deadline(); ok {
		timeout := time.Until(deadline)
		millis := int64(timeout / time.Millisecond)
		if millis <= 0 {
			millis = 1
		}
		h.Set("GRPC-Timeout", fmt.Sprintf("%dm", millis))
	}
	if md, ok := metadata.FromOutgoingContext(ctx); ok {
		toHeaders(md, h, "")
	}
	return h"""},
    {"file": "httpgrpc/io.go", "old": "			h.Add(prefix+k, v)", "new": "			h[http.CanonicalHeaderKey(prefix+k)] = append([]string(nil), v)"},
])
silent_all("metadata-appended-after-timeout", [
    {"file": "httpgrpc/client.go", "old": """	h := http.Header{}
	if md, ok := metadata.FromOutgoingContext(ctx); ok {
		toHeaders(md, h, "")
	}
	if deadline, ok := ctx.Deadline(); ok {
		timeout := time.Until(deadline)
		millis := int64(timeout / time.Millisecond)
		if millis <= 0 {
			millis = 1
		}
		h.Set("GRPC-Timeout", fmt.Sprintf("%dm", millis))
	}
	return h""", "new": """	h := http.Header{}
	if deadline, ok := ctx.Deadline(); ok {
		timeout := time.Until(deadline)
		millis := int64(timeout / time.Millisecond)
		if millis <= 0 {
			millis = 1
		}
		h.Set("GRPC-Timeout", fmt.Sprintf("%dm", millis))
	}
	if md, ok := metadata.FromOutgoingContext(ctx); ok {
		toHeaders(md, h, "")
	}
	return h"""},
], "the timeout stored first, the metadata appended (Header.Add) afterwards: the server reads the first value", ["C09", "C03", "C04", "C13"])

# ------------------------------------------------------------------ wave-4 answers
v("C02", "unary-reply-read-error-shadowed", "httpgrpc/client.go",
  """		b, err = ioutil.ReadAll(reply.Body)
		reply.Body.Close()""", """		body, err := ioutil.ReadAll(reply.Body)
		if cerr := reply.Body.Close(); err == nil {
			err = cerr
		}
		b = body""", "R1", "provenance", "the body read error lives in a variable of the goroutine: a reply cut short is decoded as the response")
v("C07", "unary-reply-read-error-shadowed", "httpgrpc/client.go",
  """		b, err = ioutil.ReadAll(reply.Body)
		reply.Body.Close()""", """		body, err := ioutil.ReadAll(reply.Body)
		if cerr := reply.Body.Close(); err == nil {
			err = cerr
		}
		b = body""", "R3", "provenance", "same, under C07")
v("C04", "readmessage-recheck-only-when-closed", "inprocgrpc/in_process.go",
  """		if err := ctx.Err(); err != nil {
			return frame{}, err
		}
		if !ok {
			return frame{}, io.EOF
		}
		return m, nil""", """		if !ok {
			if err := ctx.Err(); err != nil {
				return frame{}, err
			}
			return frame{}, io.EOF
		}
		return m, nil""", "R6", "context-rechecked", "a dequeued frame is returned without looking at the context again")
v("C04", "header-closes-stream-on-any-error", "inprocgrpc/in_process.go",
  """		if err != nil && err != io.EOF {
			return nil, err
		}
		if err == io.EOF {
			s.state = streamStateClosed
		} else {""", """		if err != nil {
			s.state = streamStateClosed
			if err != io.EOF {
				return nil, err
			}
		} else {""", "R5", "end-observed", "Header() enters the closed state when the context ended while waiting")
v("C09", "remaining-time-against-callers-instant", "httpgrpc/client.go", None, None, "R3", "floor", "the remaining time is measured against an instant taken at the start of the call", edits=[
    {"file": "httpgrpc/client.go", "old": "func headersFromContext(ctx context.Context) http.Header {", "new": "func headersFromContext(ctx context.Context, now time.Time) http.Header {"},
    {"file": "httpgrpc/client.go", "old": "		timeout := time.Until(deadline)", "new": "		timeout := deadline.Sub(now)"},
    {"file": "httpgrpc/client.go", "old": "	h := headersFromContext(ctx)\n	h.Set(\"Content-Type\", UnaryRpcContentType_V1)", "new": "	h := headersFromContext(ctx, start)\n	h.Set(\"Content-Type\", UnaryRpcContentType_V1)"},
    {"file": "httpgrpc/client.go", "old": "	h := headersFromContext(ctx)\n	h.Set(\"Content-Type\", StreamRpcContentType_V1)", "new": "	h := headersFromContext(ctx, start)\n	h.Set(\"Content-Type\", StreamRpcContentType_V1)"},
    {"file": "httpgrpc/client.go", "old": "func (ch *Channel) Invoke(ctx context.Context, methodName string, req, resp interface{}, opts ...grpc.CallOption) error {\n", "new": "func (ch *Channel) Invoke(ctx context.Context, methodName string, req, resp interface{}, opts ...grpc.CallOption) error {\n	start := time.Now()\n"},
    {"file": "httpgrpc/client.go", "old": "func (ch *Channel) NewStream(ctx context.Context, desc *grpc.StreamDesc, methodName string, opts ...grpc.CallOption) (grpc.ClientStream, error) {\n", "new": "func (ch *Channel) NewStream(ctx context.Context, desc *grpc.StreamDesc, methodName string, opts ...grpc.CallOption) (grpc.ClientStream, error) {\n	start := time.Now()\n"},
])
silent_all("remaining-time-sub-now-in-place", [
    {"file": "httpgrpc/client.go", "old": "		timeout := time.Until(deadline)", "new": "		timeout := deadline.Sub(time.Now())"},
], "deadline.Sub(time.Now()) in the encoder is what time.Until does", ["C09", "C04"])
v("C09", "one-bound-for-all-units", "httpgrpc/server.go",
  "				if timeoutVal <= math.MaxInt64/int64(unit) {", "				if timeoutVal <= math.MaxInt64/int64(time.Hour) {", "R4", "overflow-guard", "one constant bound (safe for hours) saturates wire-legal values in the finer units")
v("C08", "single-response-flag-from-registered-desc", "inprocgrpc/in_process.go",
  "		responseStream: desc.ServerStreams,", "		responseStream: md.ServerStreams,", "R1", "flag-from-caller-descriptor", "the single-response flag is read from the registered descriptor")
v("C08", "reader-skips-empty-frames", "httpgrpc/client.go",
  "		msg := make([]byte, sz)\n		_, rErr = io.ReadAtLeast(reply.Body, msg, int(sz))", "		if sz == 0 {\n			continue\n		}\n		msg := make([]byte, sz)\n		_, rErr = io.ReadAtLeast(reply.Body, msg, int(sz))", "R1", "every-frame-handed-over", "zero-length frames are skipped by the reply reader")
v("C07", "readprotomessage-empty-fast-path", "httpgrpc/io.go", None, None, "R5", "success-needs-decode", "an empty frame returns before the decode: the destination keeps its previous content", patch="seeded/C07-w4-m1/patch.diff", edits=[
    {"file": "httpgrpc/io.go", "old": "type strAddr string", "new": "type strAddr string // unchanged"},
])
v("C02", "write-failed-only-for-io-errors", "httpgrpc/server.go",
  """	err := writeProtoMessage(s.w, s.codec, m, false)
	if err != nil {
		s.writeFailed = true
	}""", """	err := writeProtoMessage(s.w, s.codec, m, false)
	if _, isStatus := status.FromError(err); !isStatus {
		s.writeFailed = true
	}""", "R2", "set-on-every-failed-write", "the write-failed flag depends on the class of the error")

v("C11", "renderer-default-moved-one-entry-forgotten", "httpgrpc/server.go", None, None, "R7", "call-of-field", "the default error renderer is applied where the options are built, except in HandleMethod", patch="seeded/C11-w4-m2/patch.diff", edits=[
    {"file": "httpgrpc/server.go", "old": "type handlerOpts struct {", "new": "type handlerOpts struct { // options of one handler"},
])
silent_all("renderer-default-moved-to-construction", [
    {"file": "httpgrpc/server.go", "old": """	var hOpts handlerOpts
	for _, opt := range opts {
		opt(&hOpts)
	}
	return handleMethod(svr, serviceName, desc, unaryInt, &hOpts)""", "new": """	return handleMethod(svr, serviceName, desc, unaryInt, newHandlerOpts(opts))"""},
], "the same refactoring done completely: every place that builds the options applies the default", ["C11", "C14", "C02"], patch="seeded/C11-w4-m2/patch.diff")
v("C13", "peer-address-from-forwarded-header", "httpgrpc/server.go",
  "	pr := peer.Peer{Addr: strAddr(r.RemoteAddr)}", """	addr := r.RemoteAddr
	if fwd := r.Header.Get("X-Forwarded-For"); fwd != "" {
		addr = fwd
	}
	pr := peer.Peer{Addr: strAddr(addr)}""", "R3", "addr", "the handler's peer address can be chosen by the client through a header")
v("C13", "empty-credentials-wipe-caller-metadata", "internal/call_options.go", None, None, "R2", "caller-metadata-kept-on-every-path", "NewOutgoingContext runs outside the len(md) > 0 block", patch="seeded/C13-w4-m2/patch.diff", edits=[
    {"file": "internal/call_options.go", "old": "	return ctx, nil\n}", "new": "	return ctx, nil // unchanged\n}"},
])
v("C14", "setmetadata-deletes-status-headers", "httpgrpc/client.go",
  "	hdr, err := asMetadata(h)\n", "	h.Del(\"X-GRPC-Status\")\n	hdr, err := asMetadata(h)\n", "R3", "reply-headers-only-read", "the status header is deleted from the reply before the status decoder reads it")
v("C14", "status-code-parsed-unsigned", "httpgrpc/client.go",
  "strconv.ParseInt(codeStrs[0], 10, 32)", "strconv.ParseUint(codeStrs[0], 10, 32)", "R3", "parse-accepts-what-is-written", "codes >= 2^31 travel as negative numbers and are rejected by ParseUint")
silent_all("handler-metadata-appended-after-status", [
    {"file": "httpgrpc/server.go", "old": """		toHeaders(sts.GetHeaders(), w.Header(), "")
		toHeaders(sts.GetTrailers(), w.Header(), "X-GRPC-Trailer-")
		if err == nil && isNil(resp) {
			err = status.Error(codes.Internal, "handler returned neither error nor response message")
		}
		if err != nil {""", "new": """		if err == nil && isNil(resp) {
			err = status.Error(codes.Internal, "handler returned neither error nor response message")
		}
		if err == nil {
			toHeaders(sts.GetHeaders(), w.Header(), "")
			toHeaders(sts.GetTrailers(), w.Header(), "X-GRPC-Trailer-")
		}
		if err != nil {"""},
    {"file": "httpgrpc/server.go", "old": """			errHandler(r.Context(), st, w)
			return""", "new": """			toHeaders(sts.GetHeaders(), w.Header(), "")
			toHeaders(sts.GetTrailers(), w.Header(), "X-GRPC-Trailer-")
			errHandler(r.Context(), st, w)
			return"""},
], "handler metadata appended (Header.Add) after the status header is set: the client reads the first value", ["C14", "C03", "C02", "C11"])

# ------------------------------------------------------------------ wave-2 rules (C15-C20)
v("C15", "methods-scratch-slice-reused", "server.go",
  """	for _, svc := range m {
		methods := make([]grpc.MethodInfo, 0, len(svc.desc.Methods)+len(svc.desc.Streams))""", """	var methods []grpc.MethodInfo
	for _, svc := range m {
		methods = methods[:0]""", "R3", "method-list-per-service", "one scratch slice reused for every service: the Methods lists share a backing array")
v("C15", "methods-accumulate-across-services", "server.go",
  """	for _, svc := range m {
		methods := make([]grpc.MethodInfo, 0, len(svc.desc.Methods)+len(svc.desc.Streams))""", """	var methods []grpc.MethodInfo
	for _, svc := range m {""", "R3", "method-list-per-service", "the list is declared outside the loop and never reset: later services also report earlier ones' methods")
v("C15", "methods-nil-start", "server.go",
  "		methods := make([]grpc.MethodInfo, 0, len(svc.desc.Methods)+len(svc.desc.Streams))", "		var methods []grpc.MethodInfo", silent=True, why="per-service list started from nil instead of a pre-sized make")

v("C16", "http-fullmethod-is-mux-pattern", "", "", "", "R3", "full-method", "the HTTP stream handler takes FullMethod from the mux pattern (contains the base path)",
  edits=[{"file": "httpgrpc/server.go", "old": "		h := handleStream(svr, desc.ServiceName, &sd, s.streamInt, &s.opts)\n		s.mux.HandleFunc(path.Join(s.basePath, fmt.Sprintf(\"%s/%s\", desc.ServiceName, sd.StreamName)), h)", "new": "		name := path.Join(s.basePath, desc.ServiceName, sd.StreamName)\n		s.mux.HandleFunc(name, handleStream(svr, name, &sd, s.streamInt, &s.opts))"},
         {"file": "httpgrpc/server.go", "old": "			h := handleStream(svr, desc.ServiceName, &sd, streamInt, &hOpts)\n			mux(path.Join(basePath, fmt.Sprintf(\"%s/%s\", desc.ServiceName, sd.StreamName)), h)", "new": "			name := path.Join(basePath, desc.ServiceName, sd.StreamName)\n			mux(name, handleStream(svr, name, &sd, streamInt, &hOpts))"},
         {"file": "httpgrpc/server.go", "old": "	return handleStream(svr, serviceName, desc, streamInt, &hOpts)", "new": "	return handleStream(svr, fmt.Sprintf(\"/%s/%s\", serviceName, desc.StreamName), desc, streamInt, &hOpts)"},
         {"file": "httpgrpc/server.go", "old": "func handleStream(svr interface{}, serviceName string, desc *grpc.StreamDesc,", "new": "func handleStream(svr interface{}, fullMethod string, desc *grpc.StreamDesc,"},
         {"file": "httpgrpc/server.go", "old": "		FullMethod:     fmt.Sprintf(\"/%s/%s\", serviceName, desc.StreamName),", "new": "		FullMethod:     fullMethod,"}])

v("C18", "copymessage-zero-source-shortcut", "internal/misc.go",
  "	pmOut.Reset()\n", "	pmOut.Reset()\n	if reflect.ValueOf(in).Elem().IsZero() {\n		return nil\n	}\n", "R5", "CopyMessage", "zero-valued source: the type-checking merge is skipped, a destination of another type is accepted")
v("C18", "clonefunc-fieldwise-copy", "inprocgrpc/cloner.go",
  "		dest.Set(src)\n		return nil\n", "		for i := 0; i < dest.NumField(); i++ {\n			if dest.Field(i).CanSet() {\n				dest.Field(i).Set(src.Field(i))\n			}\n		}\n		return nil\n", "R5", "CloneFunc$1", "exported fields only: unknown fields neither copied nor cleared")

v("C19", "override-registered-per-file", "cmd/protoc-gen-grpchan/protoc-gen-grpchan.go",
  """	if args.importPath != "" {
		// if we're overriding import path, go ahead and query
		// package for each file, which will cache the override name
		// so all subsequent queries are consistent
		for _, fd := range req.Files {
			// Only use the override for files that don't otherwise have an
			// entry in the specified import map
			if _, ok := args.importMap[fd.GetName()]; !ok {
				names.GoPackageForFileWithOverride(fd, args.importPath)
			}
		}
	}
	for _, fd := range req.Files {
""", """	for _, fd := range req.Files {
		if args.importPath != "" {
			if _, ok := args.importMap[fd.GetName()]; !ok {
				names.GoPackageForFileWithOverride(fd, args.importPath)
			}
		}
""", "R5", "override-before-generation", "override registered just before each file is generated instead of for all files first")
v("C19", "override-loop-index-form", "cmd/protoc-gen-grpchan/protoc-gen-grpchan.go",
  """		for _, fd := range req.Files {
			// Only use the override for files that don't otherwise have an
			// entry in the specified import map
			if _, ok := args.importMap[fd.GetName()]; !ok {""", """		for i := range req.Files {
			fd := req.Files[i]
			if _, ok := args.importMap[fd.GetName()]; !ok {""", silent=True, why="the override loop written with an index")

v("C20", "ondone-deferred", "inprocgrpc/in_process.go",
  "func (s *inProcessServerStream) finish(err error) {\n	s.onDone()\n", "func (s *inProcessServerStream) finish(err error) {\n	defer s.onDone()\n", "R5", "done-signal-before-final-writes", "completion signalled only after the final frames were written: a client parked in SendMsg is not released when the handler returns")
v("C05", "ondone-deferred", "inprocgrpc/in_process.go",
  "func (s *inProcessServerStream) finish(err error) {\n	s.onDone()\n", "func (s *inProcessServerStream) finish(err error) {\n	defer s.onDone()\n", "R7", "done-signal-before-final-writes", "deferred completion signal: both sides can stall on full buffers")
v("C20", "client-read-ahead", "inprocgrpc/in_process.go",
  """			err := s.cloner.Copy(m, r.data)
			if err == nil && lastMessage {
				err = s.ensureNoMoreLocked(m)
			}
			return err""", """			err := s.cloner.Copy(m, r.data)
			if err == nil && lastMessage {
				err = s.ensureNoMoreLocked(m)
			} else if err == nil {
				select {
				case nx, ok := <-s.responses:
					if ok {
						s.last = &nx
					}
				default:
				}
			}
			return err""", "R6", "", "the client polls for the next frame after each receive and parks it: the server gets one more message ahead")

# ------------------------------------------------------------------ faults seeded into REFACTORED forms (patch + edit)
v("C14", "map-table-wrong-row", "httpgrpc/codes.go", "	codes.NotFound:           http.StatusNotFound,", "	codes.NotFound:           http.StatusGone,", "R1", "row:NotFound",
  "the forward table as a map literal (refactoring D2-r4) with one row changed", patch="refactors/D2-r4/patch.diff")
v("C14", "map-table-missing-default", "httpgrpc/codes.go", "	return http.StatusInternalServerError\n}\n\n// httpStatusByCode", "	return http.StatusOK\n}\n\n// httpStatusByCode", "R1", "row:default",
  "map-table form: codes absent from the table map to 200", patch="refactors/D2-r4/patch.diff")
v("C03", "helper-fanout-dropped", "inprocgrpc/in_process.go", "	s.trailers = md\n	s.copts.SetTrailers(s.trailers)\n", "	s.trailers = md\n", "R3", "SetTrailers",
  "after refactoring A-r1 (setTrailersLocked helper): the helper forgets the call-option fan-out", patch="refactors/A-r1/patch.diff")
v("C12", "split-helper-no-length-check", "inprocgrpc/in_process.go", "	if len(strs) != 2 {\n		return \"\", \"\", status.Errorf(codes.Unimplemented, \"malformed method name: %q\", fullMethod)\n	}\n", "", "R1", "",
  "after refactoring B-r1 (splitMethodName helper): the helper indexes strs[1] without the length check", patch="refactors/B-r1/patch.diff")
v("C13", "helper-secure-flag-constant", "httpgrpc/client.go", "	return reqUrl.String(), reqUrl.Scheme == \"https\"", "	return reqUrl.String(), true", "R1", "secure-arg",
  "after refactoring C-r1 (methodURL helper): the helper reports every URL as secure", patch="refactors/C-r1/patch.diff")
v("C02", "helper-no-ok-rewrite", "httpgrpc/server.go", "	if st.Code() == codes.OK {", "	if st.Code() == codes.Unknown {", "R2", "ok-rewrite",
  "after refactoring D-r1 (statusFromHandlerError helper): the helper rewrites Unknown instead of OK", patch="refactors/D-r1/patch.diff")
v("C15", "assert-helper-returns-on-mismatch", "server.go", "		panic(fmt.Sprintf(\"service %s: handler of type %v does not satisfy %v\", desc.ServiceName, st, ht))", "		return", "R1", "type-checked",
  "after refactoring F-r1 (checkHandlerType helper): the helper returns instead of panicking on an ill-typed handler", patch="refactors/F-r1/patch.diff")
v("C05", "virtual-closure-no-close", "inprocgrpc/in_process.go", "", "", silent=True, why="refactoring B-r2 (goroutine bodies as methods) as is", patch="refactors/B-r2/patch.diff")
v("C08", "two-entry-points-probe-dropped", "inprocgrpc/in_process.go", "	err := s.recvMsgLocked(m)\n	if err == nil {\n		err = s.ensureNoMoreLocked(m)\n	}\n	return err", "	return s.recvMsgLocked(m)", "R1", "probe",
  "after refactoring A2-r1 (recvOnlyMsgLocked entry point): the single-response entry point forgets the probe", patch="refactors/A2-r1/patch.diff")
v("C07", "full-read-helper-short-read", "httpgrpc/io.go", "	_, err := io.ReadAtLeast(in, msg, int(sz))\n	return msg, err", "	_, err := io.ReadAtLeast(in, msg, 1)\n	return msg, err", "R3", "",
  "after refactoring E2-r2 (readMessageBytes helper): the helper accepts a short read", patch="refactors/E2-r2/patch.diff")
v("C11", "final-frame-wrapper-not-final", "httpgrpc/io.go", "	return writeDelimitedMessage(w, codec, m, true)", "	return writeDelimitedMessage(w, codec, m, false)", "R4", "one-trailer",
  "after refactoring E2-r1 (writeFinalProtoMessage entry point): the final-frame entry point writes a data frame", patch="refactors/E2-r1/patch.diff")

v("C09", "map-table-wrong-unit", "httpgrpc/server.go", "	'M': time.Minute,", "	'M': time.Millisecond,", "R2", "unit:M",
  "the timeout unit table as a map literal (refactoring D2-r4) with the minutes entry wrong", patch="refactors/D2-r4/patch.diff")
v("C09", "map-table-no-zero-guard", "httpgrpc/server.go", "			if unit != 0 {", "			if true {", "R2", "unknown-unit",
  "map-table form: an unknown suffix (zero unit) is multiplied anyway: immediate expiry instead of no deadline", patch="refactors/D2-r4/patch.diff")

# ------------------------------------------------------------------ wave-5 rules
v("C20", "ondone-after-lock", "inprocgrpc/in_process.go",
  "func (s *inProcessServerStream) finish(err error) {\n	s.onDone()\n\n	s.mu.Lock()\n", "func (s *inProcessServerStream) finish(err error) {\n	s.mu.Lock()\n	s.onDone()\n", "R5", "done-signal-takes-no-write-lock",
  "the completion signal queues behind the send mutex: with a second goroutine parked in SendMsg the client's blocked sender is not released when the handler returns")
v("C05", "ondone-after-lock", "inprocgrpc/in_process.go",
  "func (s *inProcessServerStream) finish(err error) {\n	s.onDone()\n\n	s.mu.Lock()\n", "func (s *inProcessServerStream) finish(err error) {\n	s.mu.Lock()\n	s.onDone()\n", "R7", "done-signal-takes-no-write-lock",
  "the completion signal queues behind the send mutex")
v("C20", "send-select-one-done-picked", "inprocgrpc/in_process.go",
  """	var remote <-chan struct{}
	if remoteCtx != nil {
		remote = remoteCtx.Done()
	}
	select {
	case ch <- m:
	case <-ctx.Done():
	case <-remote:""", """	remote := ctx.Done()
	if remoteCtx != nil {
		remote = remoteCtx.Done()
	}
	select {
	case ch <- m:
	case <-remote:
		if ctx.Err() != nil {
			return ctx.Err()
		}""", "R2", "own-context-arm", "one Done channel picked between the two contexts: the call's own context is not watched while the peer's is")
v("C20", "send-select-own-done-local", "inprocgrpc/in_process.go",
  """	select {
	case ch <- m:
	case <-ctx.Done():
	case <-remote:""", """	own := ctx.Done()
	select {
	case ch <- m:
	case <-own:
	case <-remote:""", silent=True, why="the call's own Done channel taken into a local first")
v("C20", "finish-reads-state-after-signal", "inprocgrpc/in_process.go",
  "func (s *inProcessServerStream) finish(err error) {\n	s.onDone()\n\n	s.mu.Lock()\n", "func (s *inProcessServerStream) finish(err error) {\n	done := s.onDone\n	done()\n\n	s.mu.Lock()\n", silent=True, why="the completion CancelFunc read into a local, still called before the lock")

# ------------------------------------------------------------------ batch-4 refactorings with one instance broken
v("C05", "enum-flag-send-unguarded", "inprocgrpc/in_process.go",
  "	if s.sendState == sendClosed {\n		return fmt.Errorf(\"send closed\")\n	}\n", "", "R3", "send(inProcessClientStream.requests)",
  "after refactoring A4-r1 (send state as an enum): SendMsg no longer tests the state before sending on a channel CloseSend may have closed", patch="refactors/A4-r1/patch.diff")
v("C05", "enum-flag-close-unguarded", "inprocgrpc/in_process.go",
  "	if s.sendState == sendOpen {\n		close(s.requests)\n		s.sendState = sendClosed\n	}", "	close(s.requests)\n	s.sendState = sendClosed", "R2", "close(.requests)",
  "after refactoring A4-r1: the close is no longer confined to the open state (a second CloseSend panics)", patch="refactors/A4-r1/patch.diff")
v("C03", "two-bool-state-headers-not-marked", "inprocgrpc/in_process.go",
  "	s.headers = nil\n	s.headersSent = true\n", "	s.headers = nil\n", "R1", "marks-sent",
  "after refactoring B4-r4 (state enum as two bools): flushing the headers no longer marks them as sent", patch="refactors/B4-r4/patch.diff")
v("C08", "split-loop-nil-without-response", "inprocgrpc/in_process.go",
  "	if !gotResponse {\n		return status.Error(codes.Internal, \"server sent neither response message nor error\")\n	}\n	return nil\n}", "	if !gotResponse && ctx == nil {\n		return status.Error(codes.Internal, \"server sent neither response message nor error\")\n	}\n	return nil\n}", "R2", "closed-without-response",
  "after refactoring B4-r1 (receive loop and completion decision as step functions): the completion helper reports success without a response", patch="refactors/B4-r1/patch.diff")
v("C07", "shared-struct-error-not-checked", "httpgrpc/client.go",
  "	if err := body.err; err != nil {", "	if err := body.err; err != nil && len(body.data) == 0 {", "R3", "",
  "after refactoring C4-r1 (reply read in a step function filling a result struct): a partial body with a read error is decoded", patch="refactors/C4-r1/patch.diff")
v("C11", "result-struct-nil-cancel", "httpgrpc/server.go",
  "	return requestContext{ctx: ctx, cancel: cancel}, nil", "	return requestContext{ctx: ctx}, nil", "R7", "call-of-result",
  "after refactoring D4-r2 (decoder results packed into a struct): the success return leaves the cancel func nil and the handler defers it", patch="refactors/D4-r2/patch.diff")
v("C01", "kind-param-data-frame-as-trailer", "httpgrpc/server.go",
  "	err := writeProtoMessage(s.w, s.codec, m, dataMessage)", "	err := writeProtoMessage(s.w, s.codec, m, trailerMessage)", "R2", "success-needs-handover",
  "after refactoring E4-r1 (end flag as a message kind): the server's SendMsg writes every message as the final frame", patch="refactors/E4-r1/patch.diff")
v("C03", "reserved-predicate-extra-key", "httpgrpc/io.go",
  "		\"upgrade\":\n		return true", "		\"upgrade\", \"authorization\":\n		return true", "R5", "authorization",
  "after refactoring E4-r2 (reserved-header table as a switch): an application header is withheld", patch="refactors/E4-r2/patch.diff")
v("C03", "reserved-predicate-prefix-test", "httpgrpc/io.go",
  "	}\n	return false\n}\n", "	}\n	return strings.HasPrefix(lowerKey, \"x-\")\n}\n", "R5", "enumerable",
  "after refactoring E4-r2: the predicate also withholds every key with a prefix", patch="refactors/E4-r2/patch.diff")
v("C16", "factory-skips-combined", "intercept.go",
  "		return origHandler(srv, ctx, dec, combinedInterceptor)", "		_ = combinedInterceptor\n		return origHandler(srv, ctx, dec, unaryInt)", "R2", "",
  "after refactoring F4-r3 (handler literals built by factories): the transport's interceptor is dropped", patch="refactors/F4-r3/patch.diff")
v("C16", "method-value-skips-combined", "intercept.go",
  "	return h.origHandler(srv, ctx, dec, combinedInterceptor)", "	_ = combinedInterceptor\n	return h.origHandler(srv, ctx, dec, h.unaryInt)", "R2", "",
  "after refactoring F-r4 (handler literals as methods of small structs): the transport's interceptor is dropped", patch="refactors/F-r4/patch.diff")
v("C11", "method-value-handler-accepts-get", "httpgrpc/server.go",
  "func (h *unaryHandler) serveHTTP(w http.ResponseWriter, r *http.Request) {\n	ctx := r.Context()\n	if p := peerFromRequest(r); p != nil {\n		ctx = peer.NewContext(ctx, p)\n	}\n	defer drainAndClose(r.Body)\n	if r.Method != \"POST\" {",
  "func (h *unaryHandler) serveHTTP(w http.ResponseWriter, r *http.Request) {\n	ctx := r.Context()\n	if p := peerFromRequest(r); p != nil {\n		ctx = peer.NewContext(ctx, p)\n	}\n	defer drainAndClose(r.Body)\n	if r.Method != \"POST\" && r.Method != \"GET\" {", "R1", "post",
  "after refactoring D3-r1 (HTTP handler literals as methods of small structs): the unary handler also serves GET", patch="refactors/D3-r1/patch.diff")
v("C19", "lookup-helper-wrong-field", "cmd/protoc-gen-grpchan/protoc-gen-grpchan.go",
  "	case \"legacy_stubs\":\n		return &a.legacyStubs", "	case \"legacy_stubs\":\n		return &a.legacyDescNames", "R4", "bool-options",
  "after refactoring H4-r4 (boolean options through a lookup helper): legacy_stubs sets the other flag", patch="refactors/H4-r4/patch.diff")
v("C13", "reply-peer-authinfo-conditional", "httpgrpc/client.go",
  "	if connState := reply.TLS; connState != nil {", "	if connState := reply.TLS; connState != nil && baseUrl.Scheme == \"https\" {", "R3", "authinfo",
  "after refactoring C4-r4 (peer constructor handed the reply): the TLS info is subject to a further condition", patch="refactors/C4-r4/patch.diff")
v("C11", "decoder-factory-wrong-code", "httpgrpc/server.go",
  "			return status.Error(codes.InvalidArgument, err.Error())", "			return status.Error(codes.Internal, err.Error())", "R5", "decode-error-code",
  "after refactoring D4-r3 (decode callback built by a factory): an undecodable request is reported as Internal", patch="refactors/D4-r3/patch.diff")

# ------------------------------------------------------------------ the former known false alarms with one instance broken
v("C05", "split-finish-no-unlock", "inprocgrpc/in_process.go",
  "	s.state = streamStateClosed\n	close(s.responses)\n	s.mu.Unlock()\n}", "	s.state = streamStateClosed\n	close(s.responses)\n}", "R4", "released",
  "after refactoring B2-r2 (finish split into steps, the deferred tail as a method): the tail forgets to unlock", patch="refactors/B2-r2/patch.diff")
v("C02", "split-finish-error-frame-of-nil", "inprocgrpc/in_process.go",
  "		_ = writeMessage(s.ctx, nil, s.responses, frame{err: asStatusError(err)})\n	}\n}", "	}\n	_ = writeMessage(s.ctx, nil, s.responses, frame{err: asStatusError(err)})\n}", "R2", "error-frame",
  "after refactoring B2-r2: the error frame is written whether or not there is an error", patch="refactors/B2-r2/patch.diff")
v("C05", "method-tail-no-lock", "httpgrpc/client.go",
  "	if !rMuHeld {\n		cs.rMu.Lock()\n	}\n	defer cs.rMu.Unlock()\n", "	if !rMuHeld {\n		cs.rMu.Lock()\n		cs.rMu.Unlock()\n	}\n", "R1", "",
  "after refactoring C-r4 (the response reader's deferred tail as a method): the completion fields are written without the lock", patch="refactors/C-r4/patch.diff")
v("C04", "method-tail-raw-ctx-error", "httpgrpc/client.go",
  "		rErr = statusFromContextError(ctxErr)", "		rErr = ctxErr", "R2", "",
  "after refactoring C-r4: the context error is stored untranslated", patch="refactors/C-r4/patch.diff")
v("C01", "handled-protocol-success-without-decode", "inprocgrpc/in_process.go",
  "		return true, internal.TranslateContextError(s.last.err)\n	}\n	return false, nil\n}", "		return true, internal.TranslateContextError(s.last.err)\n	}\n	return true, nil\n}", "R3", "success-needs-one-decode",
  "after refactoring A2-r4 (receive split with a (handled, err) protocol): an unhandled peeked frame is reported as a received message", patch="refactors/A2-r4/patch.diff")
v("C20", "helper-arm-not-done", "inprocgrpc/in_process.go",
  "	if ctx == nil {\n		return nil\n	}\n	return ctx.Done()\n}", "	if ctx == nil {\n		return closedChan\n	}\n	return ctx.Done()\n}\n\nvar closedChan = func() chan struct{} { c := make(chan struct{}); close(c); return c }()", "R2", "send-select",
  "after refactoring A2-r4 (doneOrNil helper): without a peer context the helper answers with a closed channel, so the send gives up at once", patch="refactors/A2-r4/patch.diff")

# ------------------------------------------------------------------ configuration plumbing (session 2)
# functions that no rule was anchored in: option setters, accessors, the deprecated alias, ServeHTTP, isNil
v("C04", "server-stream-context-accessor", "inprocgrpc/in_process.go",
  "func (s *inProcessServerStream) Context() context.Context {\n\treturn s.ctx\n}", "func (s *inProcessServerStream) Context() context.Context {\n\treturn context.TODO()\n}", "R3", "Context-accessor",
  "the handler obtains another context than the one derived for the call")
v("C10", "http-server-stream-context-accessor", "httpgrpc/server.go",
  "func (s *serverStream) Context() context.Context {\n\treturn s.ctx\n}", "func (s *serverStream) Context() context.Context {\n\treturn s.r.Context()\n}", "R6", "Context-accessor",
  "the HTTP stream handler gets the raw request context: no metadata, no deadline from the header")
v("C10", "transport-stream-method-accessor", "internal/transport_stream.go",
  "func (sts *ServerTransportStream) Method() string {\n\treturn sts.Name\n}", "func (sts *ServerTransportStream) Method() string {\n\treturn \"\"\n}", "R7", "Method-accessor",
  "grpc.Method(ctx) reports nothing inside a streaming handler")
v("C17", "deprecated-alias-drops-stream-interceptor", "intercept.go",
  "\treturn InterceptClientConn(ch, unaryInt, streamInt)\n}", "\treturn InterceptClientConn(ch, unaryInt, nil)\n}", "R3", "alias-forwards",
  "callers of the deprecated InterceptChannel lose their stream interceptor")
v("C17", "silent-alias-through-local", "intercept.go",
  "\treturn InterceptClientConn(ch, unaryInt, streamInt)\n}", "\twrapped := InterceptClientConn(ch, unaryInt, streamInt)\n\treturn wrapped\n}", silent=True,
  why="behaviour-preserving: the alias returns the result through a local")
v("C16", "inproc-stream-interceptor-setter-noop", "inprocgrpc/in_process.go",
  "\tc.streamInterceptor = interceptor\n\treturn c", "\treturn c", "R7", "reachable",
  "WithServerStreamInterceptor forgets to store: the configured interceptor never runs")
v("C16", "inproc-unary-interceptor-setter-copy", "inprocgrpc/in_process.go",
  "\tc.unaryInterceptor = interceptor\n\treturn c", "\tc2 := *c\n\tc2.unaryInterceptor = interceptor\n\treturn &c2", "R7", "setter",
  "the setter configures a copy: services registered on the original channel are not intercepted (and the copy shares the handler map)")
v("C16", "http-stream-interceptor-option-noop", "httpgrpc/server.go",
  "\t\ts.streamInt = interceptor\n", "\t\t_ = interceptor\n", "R7", "reachable",
  "the HTTP server option for stream interceptors stores nothing")
v("C16", "handler-option-applied-to-copy", "httpgrpc/server.go",
  "func (ho HandlerOption) apply(s *Server) {\n\tho(&s.opts)\n}", "func (ho HandlerOption) apply(s *Server) {\n\to := s.opts\n\tho(&o)\n}", "R7", "apply-step",
  "handler options given to NewServer configure a copy of the option struct")
v("C16", "silent-setter-named-receiver-var", "inprocgrpc/in_process.go",
  "\tc.unaryInterceptor = interceptor\n\treturn c", "\tch := c\n\tch.unaryInterceptor = interceptor\n\treturn ch", silent=True,
  why="behaviour-preserving: the receiver through a local alias")
v("C06", "cloner-setter-keeps-first", "inprocgrpc/in_process.go",
  "\tc.cloner = cloner\n\treturn c", "\tif c.cloner == nil {\n\t\tc.cloner = cloner\n\t}\n\treturn c", "R10", "setter",
  "a second WithCloner is silently ignored: the channel keeps copying with the first cloner")
v("C12", "base-path-option-rewrites", "httpgrpc/server.go",
  "\t\ts.basePath = path\n", "\t\ts.basePath = path + \"/\"\n", "R8", "setter",
  "the base path stored is not the one configured")
v("C12", "default-base-path-after-options", "httpgrpc/server.go",
  "\ts.basePath = \"/\"\n\ts.handlers = grpchan.HandlerMap{}\n\tfor _, o := range opts {\n\t\to.apply(&s)\n\t}\n", "\ts.handlers = grpchan.HandlerMap{}\n\tfor _, o := range opts {\n\t\to.apply(&s)\n\t}\n\ts.basePath = \"/\"\n", "R8", "default-before-options",
  "the default base path overwrites the configured one")
v("C12", "serve-http-answers-options-itself", "httpgrpc/server.go",
  "\ts.mux.ServeHTTP(w, r)\n}", "\tif r.Method == http.MethodOptions {\n\t\tw.WriteHeader(http.StatusNoContent)\n\t\treturn\n\t}\n\ts.mux.ServeHTTP(w, r)\n}", "R8", "delegates",
  "OPTIONS on a method URL is answered 204 instead of 405")
v("C12", "new-server-skips-first-option", "httpgrpc/server.go",
  "\tfor _, o := range opts {\n\t\to.apply(&s)\n\t}\n", "\tfor i := 1; i < len(opts); i++ {\n\t\topts[i].apply(&s)\n\t}\n", "R8", "options-applied",
  "the first server option is ignored")
v("C14", "error-renderer-option-keeps-first", "httpgrpc/server.go",
  "\t\th.errFunc = errFunc\n", "\t\tif h.errFunc == nil {\n\t\t\th.errFunc = errFunc\n\t\t}\n", "R7", "setter",
  "a later ErrorRenderer option is ignored")
v("C14", "handle-services-options-to-other-object", "httpgrpc/server.go",
  "\t\t\th := handleMethod(svr, desc.ServiceName, &md, unaryInt, &hOpts)\n\t\t\tmux(", "\t\t\th := handleMethod(svr, desc.ServiceName, &md, unaryInt, &handlerOpts{})\n\t\t\tmux(", "R7", "options-applied",
  "HandleServices applies the options to one object and hands the unary handlers another: the custom renderer is never used")
v("C14", "handle-method-only-first-option", "httpgrpc/server.go",
  "\tvar hOpts handlerOpts\n\tfor _, opt := range opts {\n\t\topt(&hOpts)\n\t}\n\treturn handleMethod(", "\tvar hOpts handlerOpts\n\tfor _, opt := range opts {\n\t\topt(&hOpts)\n\t\tbreak\n\t}\n\treturn handleMethod(", "R7", "options-applied",
  "only the first handler option is applied")
v("C14", "silent-options-index-loop", "httpgrpc/server.go",
  "\tvar hOpts handlerOpts\n\tfor _, opt := range opts {\n\t\topt(&hOpts)\n\t}\n\treturn handleMethod(", "\tvar hOpts handlerOpts\n\tfor i := 0; i < len(opts); i++ {\n\t\topts[i](&hOpts)\n\t}\n\treturn handleMethod(", silent=True,
  why="behaviour-preserving: the option loop written with an index")
v("C08", "nil-predicate-wrong-kind", "inprocgrpc/in_process.go",
  "\treturn rv.Kind() == reflect.Ptr && rv.IsNil()", "\treturn rv.Kind() == reflect.Interface && rv.IsNil()", "R2", "nil-predicate",
  "a typed nil pointer from a generated handler is no longer recognised as 'no response'")
v("C08", "nil-predicate-only-untyped", "inprocgrpc/in_process.go",
  "\trv := reflect.ValueOf(m)\n\treturn rv.Kind() == reflect.Ptr && rv.IsNil()", "\treturn false", "R2", "nil-predicate",
  "only the untyped nil counts as 'no response'")
v("C08", "silent-nil-predicate-switch", "inprocgrpc/in_process.go",
  "\trv := reflect.ValueOf(m)\n\treturn rv.Kind() == reflect.Ptr && rv.IsNil()", "\trv := reflect.ValueOf(m)\n\tif rv.Kind() == reflect.Ptr {\n\t\treturn rv.IsNil()\n\t}\n\treturn false", silent=True,
  why="behaviour-preserving: the conjunction written as an if")


# ------------------------------------------------------------------ D20
D20_METHODS = """
// The wrapper exists only to carry the finalizer above. Each operation keeps
// it reachable until the wrapped operation has returned: otherwise a garbage
// collection during the caller's last use of the stream (for example a final,
// blocked RecvMsg) could run the finalizer and cancel a call that is in progress.

func (w *clientStreamWrapper) Header() (metadata.MD, error) {
	defer runtime.KeepAlive(w)
	return w.ClientStream.Header()
}

func (w *clientStreamWrapper) Trailer() metadata.MD {
	defer runtime.KeepAlive(w)
	return w.ClientStream.Trailer()
}

func (w *clientStreamWrapper) CloseSend() error {
	defer runtime.KeepAlive(w)
	return w.ClientStream.CloseSend()
}

func (w *clientStreamWrapper) Context() context.Context {
	defer runtime.KeepAlive(w)
	return w.ClientStream.Context()
}

func (w *clientStreamWrapper) SendMsg(m interface{}) error {
	defer runtime.KeepAlive(w)
	return w.ClientStream.SendMsg(m)
}

func (w *clientStreamWrapper) RecvMsg(m interface{}) error {
	defer runtime.KeepAlive(w)
	return w.ClientStream.RecvMsg(m)
}
"""
v("C04", "d20-finalizer-on-promoting-wrapper", "httpgrpc/client.go", D20_METHODS, "", "R9", "cancel-finalizer",
  "pre-fix D20: the wrapper that carries the cancelling finalizer only promotes the stream's methods")
v("C02", "d20-recvmsg-without-keepalive", "httpgrpc/client.go",
  "func (w *clientStreamWrapper) RecvMsg(m interface{}) error {\n\tdefer runtime.KeepAlive(w)\n\treturn w.ClientStream.RecvMsg(m)\n}",
  "func (w *clientStreamWrapper) RecvMsg(m interface{}) error {\n\treturn w.ClientStream.RecvMsg(m)\n}", "R6", "cancel-finalizer",
  "one operation does not hold the wrapper: a collection during a blocked RecvMsg cancels the call")
v("C04", "inproc-finalizer-on-fresh-handle", "inprocgrpc/in_process.go",
  "\truntime.SetFinalizer(cs, func(stream *inProcessClientStream) {\n\t\tcancel()\n\t})\n\treturn cs, nil",
  "\th := &streamHandle{cs}\n\truntime.SetFinalizer(h, func(*streamHandle) {\n\t\tcancel()\n\t})\n\treturn h, nil\n}\n\ntype streamHandle struct {\n\t*inProcessClientStream",
  "R9", "cancel-finalizer", "the in-process stream gets the same promoting wrapper the HTTP one had")
v("C04", "silent-keepalive-after-call", "httpgrpc/client.go",
  "func (w *clientStreamWrapper) CloseSend() error {\n\tdefer runtime.KeepAlive(w)\n\treturn w.ClientStream.CloseSend()\n}",
  "func (w *clientStreamWrapper) CloseSend() error {\n\terr := w.ClientStream.CloseSend()\n\truntime.KeepAlive(w)\n\treturn err\n}", silent=True,
  why="behaviour-preserving: KeepAlive after the delegated call instead of deferred")

# ------------------------------------------------------------------ D24, D25 and the wave-6 answers
v("C05", "d24-invalid-message-no-cancel", "httpgrpc/client.go",
  """			cs.rMu.Lock()
			if cs.rErr == nil {
				cs.rErr = err
				cs.done = true
				cs.cancel()
			}
			cs.rMu.Unlock()
			return err""", "			return err", "R10", "cancels-the-call", "pre-fix D24: the undecodable-message error leaves the reply reader parked")
v("C05", "d25-too-many-responses-no-cancel", "inprocgrpc/in_process.go",
  "		s.cancel()\n		return s.last.err", "		return s.last.err", "R10", "cancels-the-call", "pre-fix D25: the handler stays blocked in SendMsg")
v("C05", "silent-own-failure-built-inside-guard", "httpgrpc/client.go",
  """			err = status.Error(codes.Internal, fmt.Sprintf("server sent invalid message: %v", err))
			// this error ends the call: we won't be reading from the channel
			// anymore, so we must cancel the context so that doHttpCall doesn't
			// hang trying to write the next message to the channel
			cs.rMu.Lock()
			if cs.rErr == nil {
				cs.rErr = err
				cs.done = true
				cs.cancel()
			}
			cs.rMu.Unlock()
			return err""", """			cs.rMu.Lock()
			defer cs.rMu.Unlock()
			if cs.rErr == nil {
				cs.rErr = status.Error(codes.Internal, fmt.Sprintf("server sent invalid message: %v", err))
				cs.done = true
				cs.cancel()
			}
			return cs.rErr""", silent=True, why="behaviour-preserving up to which of two terminal errors is reported: the sibling branch's shape")
v("C01", "unary-request-resent-on-eof", "httpgrpc/client.go",
  "	reply, err := ch.Transport.RoundTrip(r.WithContext(ctx))\n	if err != nil {\n		return statusFromContextError(err)\n	}",
  "	reply, err := ch.Transport.RoundTrip(r.WithContext(ctx))\n	if err == io.EOF && ctx.Err() == nil {\n		r2, _ := http.NewRequest(\"POST\", reqUrlStr, bytes.NewReader(b))\n		r2.Header = h\n		reply, err = ch.Transport.RoundTrip(r2.WithContext(ctx))\n	}\n	if err != nil {\n		return statusFromContextError(err)\n	}",
  "R11", "request-issued-at-most-once", "a unary request is sent a second time when the first round trip ends in EOF: a handled request is handled twice")
v("C09", "retry-with-stale-timeout-header", "httpgrpc/client.go",
  "	reply, err := ch.Transport.RoundTrip(r.WithContext(ctx))\n	if err != nil {\n		return statusFromContextError(err)\n	}",
  "	reply, err := ch.Transport.RoundTrip(r.WithContext(ctx))\n	if err == io.EOF && ctx.Err() == nil {\n		r2, _ := http.NewRequest(\"POST\", reqUrlStr, bytes.NewReader(b))\n		r2.Header = h\n		reply, err = ch.Transport.RoundTrip(r2.WithContext(ctx))\n	}\n	if err != nil {\n		return statusFromContextError(err)\n	}",
  "R1", "timeout-computed-per-request", "the re-sent request carries the timeout computed before the first attempt")
v("C02", "final-frames-under-library-timer", "inprocgrpc/in_process.go",
  "		_ = writeMessage(s.ctx, nil, s.responses, frame{err: err})",
  "		tctx, tcancel := context.WithTimeout(s.ctx, 3*time.Second)\n		_ = writeMessage(tctx, nil, s.responses, frame{err: err})\n		tcancel()",
  "R2", "no-library-timer", "the error frame is given up after three seconds: a slow client sees a clean end",
  edits=[{"file": "inprocgrpc/in_process.go", "old": "		_ = writeMessage(s.ctx, nil, s.responses, frame{err: err})", "new": "		tctx, tcancel := context.WithTimeout(s.ctx, 3*time.Second)\n		_ = writeMessage(tctx, nil, s.responses, frame{err: err})\n		tcancel()"},
         {"file": "inprocgrpc/in_process.go", "old": "	\"sync\"\n", "new": "	\"sync\"\n	\"time\"\n"}])
v("C03", "set-trailer-refuses-by-content", "inprocgrpc/in_process.go",
  "	if s.trailers == nil {\n		s.trailers = metadata.MD{}\n	}", "	if err := checkMD(md); err != nil {\n		return err\n	}\n	if s.trailers == nil {\n		s.trailers = metadata.MD{}\n	}",
  "R1", "refuses-only-for-state", "trailers whose values contain a character the validator dislikes are dropped wholesale",
  edits=[{"file": "inprocgrpc/in_process.go", "old": "	if s.trailers == nil {\n		s.trailers = metadata.MD{}\n	}", "new": "	if err := checkMD(md); err != nil {\n		return err\n	}\n	if s.trailers == nil {\n		s.trailers = metadata.MD{}\n	}"},
         {"file": "inprocgrpc/in_process.go", "old": "var clientContextKey = ", "new": "func checkMD(md metadata.MD) error {\n	for k, vs := range md {\n		for _, v := range vs {\n			if strings.ContainsAny(v, \"~\\x7f\") {\n				return fmt.Errorf(\"bad value for %s\", k)\n			}\n		}\n	}\n	return nil\n}\n\nvar clientContextKey = "}])
v("C03", "unary-fan-out-twice", "httpgrpc/client.go",
  "	if stat := statFromResponse(reply); stat.Code() != codes.OK {", "	if len(reply.Trailer) > 0 {\n		if err := setMetadata(reply.Trailer, copts); err != nil {\n			return err\n		}\n	}\n	if stat := statFromResponse(reply); stat.Code() != codes.OK {",
  "R3", "at-most-once", "a second pass of the metadata helper over the HTTP trailers wipes the header targets")
v("C19", "go-file-import-path-cleaned", "cmd/protoc-gen-grpchan/protoc-gen-grpchan.go",
  "gopoet.NewGoFile(path.Base(filename), pkg.ImportPath, pkg.Name)", "gopoet.NewGoFile(path.Base(filename), path.Clean(pkg.ImportPath), pkg.Name)", "R2", "file-package-identity",
  "the file's own package path is normalised: its own types become foreign for go_package values like ./;pkg")

# ------------------------------------------------------------------ D21 (known), D23
v("C02", "d23-trailer-message-unsanitised", "httpgrpc/server.go",
  "			tr.Message = strings.ToValidUTF8(statProto.Message, \"\\uFFFD\")", "			tr.Message = statProto.Message", "R3", "trailer-message-valid-utf8",
  "pre-fix D23: a status message that is not valid UTF-8 makes the trailer frame unmarshallable",
  edits=[{"file": "httpgrpc/server.go", "old": "			tr.Message = strings.ToValidUTF8(statProto.Message, \"\\uFFFD\")", "new": "			tr.Message = statProto.Message"},
         {"file": "httpgrpc/server.go", "old": "	\"strings\"\n", "new": ""}])
v("C02", "silent-d21-repaired-with-percent-encoding", "httpgrpc/server.go",
  "x", "y", silent=True, why="the repaired form of the known finding D21: the message is percent-encoded into the header and decoded by the client",
  edits=[{"file": "httpgrpc/server.go", "old": "fmt.Sprintf(\"%d:%s\", statProto.Code, statProto.Message)", "new": "fmt.Sprintf(\"%d:%s\", statProto.Code, url.PathEscape(statProto.Message))"},
         {"file": "httpgrpc/server.go", "old": "	\"net/http\"\n", "new": "	\"net/http\"\n	\"net/url\"\n"},
         {"file": "httpgrpc/client.go", "old": "			msg = codeStrs[1]", "new": "			if m, uerr := url.PathUnescape(codeStrs[1]); uerr == nil {\n				msg = m\n			} else {\n				msg = codeStrs[1]\n			}"}])
v("C09", "deadline-context-dropped", "httpgrpc/server.go",
  "				ctx, cancel = context.WithTimeout(ctx, d)\n", "				_, cancel = context.WithTimeout(ctx, d)\n", "R5", "deadline",
  "the timeout context is created but the context without it is returned")
v("C12", "base-path-option-appends-slash", "httpgrpc/server.go",
  "		s.basePath = path\n", "		s.basePath = path + \"/\"\n", "R8", "setter", "the base path stored is not the one configured")

# ------------------------------------------------------------------ third session: D26, wave 7 answers
v("C08", "d26-nil-response-encoded", "httpgrpc/server.go",
  "		if err == nil && isNil(resp) {\n			err = status.Error(codes.Internal, \"handler returned neither error nor response message\")\n		}\n", "", "R9", "response-encoded-only-if-present",
  "pre-fix D26: a unary handler returning (nil, nil) is answered with an empty 200 body (a zero message)")
v("C01", "frame-writer-never-flushes", "httpgrpc/io.go",
  "	if err == nil {\n		if f, ok := w.(http.Flusher); ok {\n			f.Flush()\n		}\n	}\n	return err\n}", "	return err\n}", "R12", "flush-after-write",
  "frames stay in net/http's buffer until the handler returns",
  edits=[{"file": "httpgrpc/io.go", "old": "	if err == nil {\n		if f, ok := w.(http.Flusher); ok {\n			f.Flush()\n		}\n	}\n	return err\n}", "new": "	return err\n}"},
         ])
v("C05", "flush-only-for-trailer", "httpgrpc/io.go",
  "	if err == nil {\n		if f, ok := w.(http.Flusher); ok {", "	if err == nil && end {\n		if f, ok := w.(http.Flusher); ok {", "R12", "flush-after-write",
  "only the final frame is flushed: a ping-pong client never sees a reply")
v("C14", "verdict-through-context-check", "httpgrpc/client.go",
  "		return stat.Err()\n", "		if ctx.Err() != nil {\n			return statusFromContextError(ctx.Err())\n		}\n		return stat.Err()\n", "R3", "server-verdict-returned-as-is",
  "a context that ended after the reply arrived replaces the server's code")
v("C03", "status-check-before-metadata", "httpgrpc/client.go",
  "x", "y", "R3", "before-the-status-verdict", "failed unary calls leave Header/Trailer targets empty",
  edits=[{"file": "httpgrpc/client.go", "old": "	// gather headers and trailers\n	if len(copts.Headers) > 0 || len(copts.Trailers) > 0 {\n		if err := setMetadata(reply.Header, copts); err != nil {\n			return err\n		}\n	}\n\n	if stat := statFromResponse(reply); stat.Code() != codes.OK {\n		return stat.Err()\n	}\n",
          "new": "	if stat := statFromResponse(reply); stat.Code() != codes.OK {\n		return stat.Err()\n	}\n\n	// gather headers and trailers\n	if len(copts.Headers) > 0 || len(copts.Trailers) > 0 {\n		if err := setMetadata(reply.Header, copts); err != nil {\n			return err\n		}\n	}\n"}])
v("C05", "server-recv-looks-ahead", "inprocgrpc/in_process.go",
  "	if resp.err != nil {\n		return resp.err\n	}\n	return s.cloner.Copy(m, resp.data)\n", "	if resp.err != nil {\n		return resp.err\n	}\n	if next, err := readMessage(s.ctx, s.requests); err == nil && next.data != nil {\n		return status.Errorf(codes.InvalidArgument, \"unexpected message\")\n	}\n	return s.cloner.Copy(m, resp.data)\n", "R11", "one-receive-per-call",
  "the handler's RecvMsg waits for what follows its request")
v("C08", "server-send-counts", "inprocgrpc/in_process.go",
  "x", "y", "R10", "turns-away-only-for-state", "a surplus response never leaves the server",
  edits=[{"file": "inprocgrpc/in_process.go", "old": "	if isNil(m) {\n		return status.Errorf(codes.Internal, \"message to send is nil\")\n	}\n\n	m, err := s.cloner.Clone(m)\n	if err != nil {\n		return err\n	}\n	return writeMessage(s.ctx, nil, s.responses, frame{data: m})",
          "new": "	if isNil(m) {\n		return status.Errorf(codes.Internal, \"message to send is nil\")\n	}\n	if s.sent > 0 && s.single {\n		return status.Errorf(codes.Internal, \"too many responses\")\n	}\n	s.sent++\n\n	m, err := s.cloner.Clone(m)\n	if err != nil {\n		return err\n	}\n	return writeMessage(s.ctx, nil, s.responses, frame{data: m})"},
         {"file": "inprocgrpc/in_process.go", "old": "type inProcessServerStream struct {\n", "new": "type inProcessServerStream struct {\n	sent   int\n	single bool\n"}])
v("C10", "client-context-with-peer", "inprocgrpc/in_process.go",
  "	newCtx = context.WithValue(newCtx, &clientContextKey, ctx)", "	newCtx = context.WithValue(newCtx, &clientContextKey, peer.NewContext(ctx, &inprocessPeer))", "R4", "client-context-is-the-callers",
  "the back-door context carries a value the library attached")
v("C02", "status-dug-out-with-errors-as", "httpgrpc/server.go",
  "x", "y", "R2", "status-is-FromErrors", "the status is taken from the first status error in the chain, not from status.FromError",
  edits=[{"file": "httpgrpc/server.go", "old": "			st, _ := status.FromError(internal.TranslateContextError(err))\n			if st.Code() == codes.OK {\n				// preserve all error details, but rewrite the code since we don't want\n				// to send back a non-error status when we know an error occured\n				stpb := st.Proto()\n				stpb.Code = int32(codes.Internal)\n				st = status.FromProto(stpb)\n			}\n			statProto := st.Proto()",
          "new": "			st, _ := status.FromError(internal.TranslateContextError(err))\n			var gs interface{ GRPCStatus() *status.Status }\n			if errors.As(err, &gs) {\n				st = gs.GRPCStatus()\n			}\n			if st.Code() == codes.OK {\n				// preserve all error details, but rewrite the code since we don't want\n				// to send back a non-error status when we know an error occured\n				stpb := st.Proto()\n				stpb.Code = int32(codes.Internal)\n				st = status.FromProto(stpb)\n			}\n			statProto := st.Proto()"},
         ])
v("C18", "codec-cloner-clears-by-reflection", "inprocgrpc/cloner.go",
  "		} else if err := codec.Unmarshal(b, out); err != nil {", "		} else if err := internal.ClearMessage(out); err != nil {\n			return err\n		} else if err := codec.Unmarshal(b, out); err != nil {", "R3", "destination-only-to-the-codec",
  "a dynamic message cleared by reflection loses its descriptor")
v("C13", "first-creds-option-wins", "internal/call_options.go",
  "		case grpc.PerRPCCredsCallOption:\n			copts.Creds = o.Creds\n", "		case grpc.PerRPCCredsCallOption:\n			if copts.Creds == nil {\n				copts.Creds = o.Creds\n			}\n", silent=True,
  why="NOT decided: a first-wins guard inside the loop is not seen by C13/R4, which looks at how the loop is left (documented gap)")
v("C13", "creds-loop-left-on-match", "internal/call_options.go",
  "		case grpc.PerRPCCredsCallOption:\n			copts.Creds = o.Creds\n", "		case grpc.PerRPCCredsCallOption:\n			copts.Creds = o.Creds\n			return &copts\n", "R4", "last-option-wins",
  "the loop over the options is left on the first credentials option")
v("C11", "reserved-headers-skipped-before-decode", "httpgrpc/io.go",
  "		k = strings.ToLower(k)\n		for _, v := range vs {", "		k = strings.ToLower(k)\n		if _, skip := reservedHeaders[k]; skip {\n			continue\n		}\n		for _, v := range vs {", "R6", "decodes-every-bin-header",
  "a name filter in front of the base64 decode")
v("C19", "debug-report-reads-outputs", "cmd/protoc-gen-grpchan/protoc-gen-grpchan.go",
  "x", "y", "R6", "write-only", "ForEach drains the one-shot readers of the response",
  edits=[{"file": "cmd/protoc-gen-grpchan/protoc-gen-grpchan.go", "old": "func doCodeGen(req *plugins.CodeGenRequest, resp *plugins.CodeGenResponse) error {\n", "new": "func countOutputs(resp *plugins.CodeGenResponse) int {\n	n := 0\n	_ = resp.ForEach(func(name, _ string, data io.Reader) error {\n		b, _ := io.ReadAll(data)\n		n += len(b)\n		return nil\n	})\n	return n\n}\n\nfunc doCodeGen(req *plugins.CodeGenRequest, resp *plugins.CodeGenResponse) error {\n	defer func() { _ = countOutputs(resp) }()\n"},
         {"file": "cmd/protoc-gen-grpchan/protoc-gen-grpchan.go", "old": "import (\n", "new": "import (\n	\"io\"\n"}])
v("C19", "bool-words-parsebool", "cmd/protoc-gen-grpchan/protoc-gen-grpchan.go",
  "	case \"true\", \"on\", \"yes\", \"1\":\n		return true, nil\n	case \"false\", \"off\", \"no\", \"0\":\n		return false, nil", "	case \"true\", \"1\":\n		return true, nil\n	case \"false\", \"0\":\n		return false, nil", "R4", "bool-words",
  "on/yes/off/no are refused")
v("C12", "service-uri-unguarded-slice", "internal/call_options.go",
  "func ApplyPerRPCCreds(ctx context.Context, copts *CallOptions, uri string, isChannelSecure bool) (context.Context, error) {\n", "func ApplyPerRPCCreds(ctx context.Context, copts *CallOptions, uri string, isChannelSecure bool) (context.Context, error) {\n	uri = uri[:strings.LastIndex(uri, \"/\")]\n", "R1", "slice",
  "a method name without a slash panics",
  edits=[{"file": "internal/call_options.go", "old": "func ApplyPerRPCCreds(ctx context.Context, copts *CallOptions, uri string, isChannelSecure bool) (context.Context, error) {\n", "new": "func ApplyPerRPCCreds(ctx context.Context, copts *CallOptions, uri string, isChannelSecure bool) (context.Context, error) {\n	uri = uri[:strings.LastIndex(uri, \"/\")]\n"},
         {"file": "internal/call_options.go", "old": "import (\n", "new": "import (\n	\"strings\"\n"}])
v("C05", "stream-request-bound-to-callers-context", "httpgrpc/client.go",
  "transport.RoundTrip(req.WithContext(cs.ctx))", "transport.RoundTrip(req)", "R13", "request-ctx",
  "the stream's own cancel no longer ends the exchange")

# ------------------------------------------------------------------ D27 and wave 8 answers
v("C05", "d27-drain-before-completion", "httpgrpc/client.go",
  "x", "y", "R6", "reply-drained-after-completion",
  "pre-fix D27: the reply is drained before the completion step, on the trailer path under rMu with the request pipe open",
  edits=[{"file": "httpgrpc/client.go", "old": "		if reply != nil {\n			// Drain the reply only after the stream has been marked done and\n			// the request pipe closed (and rMu released): the server may be\n			// waiting for the end of the request body before it ends the reply.\n			defer func() {\n				ioutil.ReadAll(reply.Body)\n				reply.Body.Close()\n			}()\n		}\n", "new": ""},
         {"file": "httpgrpc/client.go", "old": "		reply = nil\n		onReady(statusFromContextError(err), nil)\n		return\n	}\n", "new": "		reply = nil\n		onReady(statusFromContextError(err), nil)\n		return\n	}\n	defer func() {\n		ioutil.ReadAll(reply.Body)\n		reply.Body.Close()\n	}()\n"}])
v("C05", "drain-deferred-after-the-unlock", "httpgrpc/client.go",
  "x", "y", "R6", "reply-drained-after-completion",
  "the drain is deferred by the completion step, but after the unlock was: it runs first, with rMu held",
  edits=[{"file": "httpgrpc/client.go", "old": "		if reply != nil {\n			// Drain the reply only after the stream has been marked done and\n			// the request pipe closed (and rMu released): the server may be\n			// waiting for the end of the request body before it ends the reply.\n			defer func() {\n				ioutil.ReadAll(reply.Body)\n				reply.Body.Close()\n			}()\n		}\n		if !rMuHeld {\n			cs.rMu.Lock()\n		}\n		defer cs.rMu.Unlock()\n",
          "new": "		if !rMuHeld {\n			cs.rMu.Lock()\n		}\n		defer cs.rMu.Unlock()\n		if reply != nil {\n			defer func() {\n				ioutil.ReadAll(reply.Body)\n				reply.Body.Close()\n			}()\n		}\n"}])
v("C01", "send-header-flushes", "httpgrpc/server.go",
  "		s.w.WriteHeader(http.StatusOK)\n		s.headersSent = true\n", "		s.w.WriteHeader(http.StatusOK)\n		if f, ok := s.w.(http.Flusher); ok {\n			f.Flush()\n		}\n		s.headersSent = true\n", "R12", "flushes-outside-the-frame-writer",
  "the first flush makes net/http drop the unread rest of the request body")
v("C05", "done-signal-noop-for-server-streams", "inprocgrpc/in_process.go",
  "	svrDoneCtx, svrDoneCancel := context.WithCancel(svrCtx)\n", "	svrDoneCtx, svrDoneCancel := context.WithCancel(svrCtx)\n	if !md.ClientStreams {\n		svrDoneCancel()\n		svrDoneCancel = func() {}\n		svrDoneCtx = svrCtx\n	}\n", "R7", "done-signal-is-a-real-cancel",
  "no release of a blocked sender for methods 'that send only once'")
v("C19", "desc-var-assembled-by-hand", "cmd/protoc-gen-grpchan/protoc-gen-grpchan.go",
  "	return names.GoNameOfExportedServiceDesc(sd).Name\n", "	return names.CamelCase(sd.GetName()) + \"_ServiceDesc\"\n", "R7", "desc-var-from-GoNames",
  "the descriptor variable's name is assembled from the service name")
v("C09", "lenient-metadata-skips-the-timeout", "httpgrpc/server.go",
  "	md, err := asMetadata(h)\n	if err != nil {\n		return parent, cancel, err\n	}\n", "	md, err := asMetadata(h)\n	if err != nil {\n		if md == nil {\n			return parent, cancel, err\n		}\n		return metadata.NewIncomingContext(parent, md), cancel, nil\n	}\n", "R5", "timeout-header-read-on-every-accepting-path",
  "a lenient branch returns before the timeout header is looked at")
v("C14", "bare-499-when-request-context-done", "httpgrpc/server.go",
  "		toHeaders(sts.GetHeaders(), w.Header(), \"\")\n		toHeaders(sts.GetTrailers(), w.Header(), \"X-GRPC-Trailer-\")\n		if err == nil && isNil(resp) {", "		if r.Context().Err() != nil {\n			writeError(w, 499)\n			return\n		}\n		toHeaders(sts.GetHeaders(), w.Header(), \"\")\n		toHeaders(sts.GetTrailers(), w.Header(), \"X-GRPC-Trailer-\")\n		if err == nil && isNil(resp) {", "R3", "every-failure-carries-the-status-header",
  "a failed call is answered without the status header")
v("C04", "unary-reply-decoded-in-the-reader-goroutine", "httpgrpc/client.go",
  "		b, err = ioutil.ReadAll(reply.Body)\n		reply.Body.Close()\n", "		b, err = ioutil.ReadAll(reply.Body)\n		reply.Body.Close()\n		if err == nil {\n			err = codec.Unmarshal(b, resp)\n		}\n", "R10", "response-not-filled-by-its-goroutines",
  "the reader goroutine fills the caller's message, possibly after the call returned Canceled")

# ------------------------------------------------------------------ D28
v("C05", "d28-no-finished-fence", "httpgrpc/server.go",
  "		str.wmu.Lock()\n		str.finished = true\n		str.wmu.Unlock()\n", "", "R14", "finished-fence",
  "pre-fix D28: nothing tells the stream that the handler has returned")
v("C05", "fence-set-without-the-lock", "httpgrpc/server.go",
  "		str.wmu.Lock()\n		str.finished = true\n		str.wmu.Unlock()\n", "		str.finished = true\n", "R14", "finished-fence",
  "the flag is set without the write lock: a send in progress does not see it")
v("C05", "send-ignores-the-fence", "httpgrpc/server.go",
  "	if s.writeFailed || s.finished {", "	if s.writeFailed {", "R14", "writer-used-only-before-finish",
  "SendMsg writes to the recycled ResponseWriter after the handler returned")
v("C05", "fence-skipped-on-the-interceptor-path", "httpgrpc/server.go",
  "		str.wmu.Lock()\n		str.finished = true\n		str.wmu.Unlock()\n", "		if streamInt == nil {\n			str.wmu.Lock()\n			str.finished = true\n			str.wmu.Unlock()\n		}\n", "R14", "finished-fence",
  "with an interceptor installed the stream is never marked finished")

# ------------------------------------------------------------------ waves 9 and 10
v("C09", "timeout-parsed-unsigned", "httpgrpc/server.go",
  "		if timeoutVal, err := strconv.ParseInt(timeout[:len(timeout)-1], 10, 64); err == nil {\n", "		if u, err := strconv.ParseUint(timeout[:len(timeout)-1], 10, 64); err == nil {\n			timeoutVal := int64(u)\n", "R4", "parsed-as-signed-64",
  "values from 2^63 on wrap to negative and pass the signed upper-bound test")
v("C05", "request-drain-bounded", "httpgrpc/server.go",
  "	_, copyErr := io.Copy(ioutil.Discard, r)\n", "	_, copyErr := io.CopyN(ioutil.Discard, r, 256<<10)\n	if copyErr == io.EOF {\n		copyErr = nil\n	}\n", "R6", "drains-to-the-end",
  "a client that is still sending loses its connection and blocks in the pipe write")
v("C04", "stream-handler-enables-full-duplex", "httpgrpc/server.go",
  "		str := &serverStream{r: r, w: w, respStream: desc.ClientStreams, codec: codec}\n", "		_ = http.NewResponseController(w).EnableFullDuplex()\n		str := &serverStream{r: r, w: w, respStream: desc.ClientStreams, codec: codec}\n", "R12", "connection-handling-left-to-net/http",
  "net/http no longer consumes the request body on the first reply write, nor watches the connection")
v("C16", "unary-dispatch-skipped-for-a-done-context", "httpgrpc/server.go",
  "		resp, err := desc.Handler(svr, grpc.NewContextWithServerTransportStream(ctx, &sts), dec, unaryInt)\n", "		var resp interface{}\n		err = ctx.Err()\n		if err == nil {\n			resp, err = desc.Handler(svr, grpc.NewContextWithServerTransportStream(ctx, &sts), dec, unaryInt)\n		}\n", "R9", "accepted-means-dispatched",
  "interceptors never see an RPC whose context was done on arrival")
v("C19", "generator-refuses-files-itself", "cmd/protoc-gen-grpchan/protoc-gen-grpchan.go",
  "	if len(fd.GetServices()) == 0 {\n		return nil\n	}\n", "	if len(fd.GetServices()) == 0 {\n		return nil\n	}\n	if len(fd.GetServices()) > 1 && fd.GetServices()[0].GetName()+\"Client\" == fd.GetServices()[1].GetName() {\n		return fmt.Errorf(\"%s: service names collide\", fd.GetName())\n	}\n", "R8", "refuses-no-file",
  "a valid file is refused by a name check of the plugin's own")
v("C18", "copy-gated-by-a-module-check", "internal/misc.go",
  "	pmOut.Reset()\n	// This will check that types are compatible", "	if err := ClearMessage(pmIn); err != nil {\n		return err\n	}\n	pmOut.Reset()\n	// This will check that types are compatible", "R1", "refuses-only-what-the-merge-refuses",
  "(also destroys the source) a module function handed the message decides the refusal")
v("C12", "stream-client-own-verdict-before-status", "httpgrpc/client.go",
  "	stat := statFromResponse(reply)\n", "	if reply.Header.Get(\"Content-Type\") != StreamRpcContentType_V1 {\n		cs.tr.Code = int32(codes.Unavailable)\n		return\n	}\n	stat := statFromResponse(reply)\n", "R9", "no-own-verdict-before-the-status-header",
  "the mux's 404 for an unknown method becomes Unavailable")

# ------------------------------------------------------------------ wave 11
v("C05", "http-message-channel-buffered", "httpgrpc/client.go",
  "		rCh:        make(chan []byte),", "		rCh:        make(chan []byte, 4),", "R16", "unbuffered",
  "messages parked in the channel when the stream is marked done are never received")
v("C09", "stream-gets-a-channel-wide-timeout", "httpgrpc/client.go",
  "	ctx, cancel := context.WithCancel(ctx)\n\n	h := headersFromContext(ctx)\n	h.Set(\"Content-Type\", StreamRpcContentType_V1)", "	ctx, cancel := context.WithTimeout(ctx, 30*time.Second)\n\n	h := headersFromContext(ctx)\n	h.Set(\"Content-Type\", StreamRpcContentType_V1)", "R1", "no-library-timer-on-the-callers-deadline",
  "a caller's longer deadline is cut to the library's default",
  edits=[{"file": "httpgrpc/client.go", "old": "	ctx, cancel := context.WithCancel(ctx)\n\n	h := headersFromContext(ctx)\n	h.Set(\"Content-Type\", StreamRpcContentType_V1)", "new": "	ctx, cancel := context.WithTimeout(ctx, 30*time.Second)\n\n	h := headersFromContext(ctx)\n	h.Set(\"Content-Type\", StreamRpcContentType_V1)"}])


def main():
    if os.path.isdir(OUT):
        shutil.rmtree(OUT)
    for prop, name, d in VARIANTS:
        os.makedirs(os.path.join(OUT, prop), exist_ok=True)
        json.dump(d, open(os.path.join(OUT, prop, name + ".json"), "w"), indent=1)
    print("wrote", len(VARIANTS), "variants")


if __name__ == "__main__":
    main()
