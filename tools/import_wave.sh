#!/bin/sh
# usage: tools/import_wave.sh <Cxx> <wave-tag>   imports /tmp/mut/<Cxx>-out/m*/ as seeded/<Cxx>-<tag>-mN
P=$1; W=$2
for d in /tmp/mut/$P-out/m*; do
  [ -f "$d/patch.diff" ] || continue
  n=$(basename $d)
  python3 /verif/tools/seeded.py import $d $P-$W-$n 2>&1 | grep -v conda | python3 -c "
import sys,json
txt=sys.stdin.read()
i=txt.rfind('}')
d=json.loads(txt[:i+1])
print('$P-$W-$n', d['confirm'], 'OWN:', d.get('caught_by_own_property'))
for k,v in d.get('fired',{}).items():
    print('   ',k,len(v)); [print('       ',l[:210]) for l in v[:2]]
print('   ', txt[i+1:].strip())
"
done
