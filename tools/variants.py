#!/usr/bin/env python3
"""Self-test of the checker against seeded variants (DESIGN.md §7).

Each file checker/selftest/variants/<Cxx>/<name>.json is
  {"file": "httpgrpc/io.go", "old": "...", "new": "...",        # one textual edit (or "edits": [{file,old,new},...])
   "expect": {"property": "C07", "rule": "R1", "construct": "substring"} | "silent",
   "why": "what the edit breaks"}
The edit is applied to a scratch copy of the CURRENT /repo working tree (never
to /repo itself); the copy must still type-check (the checker's loader fails
otherwise); the one property is analysed in a separate process.  Expectation
"fire": exit 1 and a violation line naming the rule (and construct substring);
"silent": exit 0.  A variant whose old text no longer occurs is SKIPPED and
listed.  Exit status: 0 all as expected, 2 otherwise (CHECK-ERROR: a checker
that misses its own seeded faults is not to be believed)."""
import argparse, concurrent.futures as cf, glob, json, os, shutil, subprocess, sys, tempfile

V = os.path.dirname(os.path.dirname(os.path.abspath(__file__)))


def run_variant(path, repo, binary, keep=False):
    spec = json.load(open(path))
    name = os.path.relpath(path, os.path.join(V, "checker/selftest/variants"))
    edits = spec.get("edits") or ([{"file": spec["file"], "old": spec["old"], "new": spec["new"]}] if spec.get("file") else [])
    scratch_root = os.environ.get("TMPDIR", "/var/tmp")
    d = tempfile.mkdtemp(prefix="grpchan-verif.", dir=scratch_root)
    try:
        dst = os.path.join(d, "repo")
        subprocess.check_call(["rsync", "-a", "--exclude", ".git", repo.rstrip("/") + "/", dst + "/"])
        if spec.get("patch"):
            # a kept refactoring (relative to /verif) is applied first; the edits then break (or keep) the refactored form
            pp = os.path.join(V, spec["patch"])
            r = subprocess.run(["git", "apply", "--whitespace=nowarn", pp], cwd=dst, capture_output=True, text=True)
            if r.returncode != 0:
                return (name, "SKIP", "patch %s no longer applies (tree moved on)" % spec["patch"])
        for e in edits:
            fp = os.path.join(dst, e["file"])
            s = open(fp).read()
            if s.count(e["old"]) < 1:
                return (name, "SKIP", "old text not found in %s (tree moved on)" % e["file"])
            s = s.replace(e["old"], e["new"], 1 if not e.get("all") else -1)
            open(fp, "w").write(s)
        exp = spec["expect"]
        prop = spec.get("property") or (exp["property"] if isinstance(exp, dict) else None)
        if prop is None:
            prop = os.path.basename(os.path.dirname(path))
        p = subprocess.run([binary, "-prop", prop, "-repo", dst, "-no-evidence", "-verif", V],
                           capture_output=True, text=True)
        out = p.stdout + p.stderr
        if p.returncode == 2:
            return (name, "ERROR", "variant does not load/type-check or checker error: " + out.strip().splitlines()[-1][:300] if out.strip() else "exit 2")
        viol = [l for l in out.splitlines() if "] " in l and ": [" in l]
        if exp == "silent":
            if p.returncode == 0:
                return (name, "OK", "silent as expected")
            return (name, "FALSE-ALARM", "; ".join(viol)[:600])
        want_rule = "[%s/%s]" % (prop, exp["rule"])
        hits = [l for l in viol if want_rule in l and exp.get("construct", "") in l]
        if p.returncode == 1 and hits:
            return (name, "OK", hits[0][:200])
        if p.returncode == 1:
            return (name, "WRONG-RULE", "fired, but not %s %s: %s" % (want_rule, exp.get("construct", ""), "; ".join(viol)[:400]))
        return (name, "MISSED", "checker is silent on a seeded fault: " + spec.get("why", ""))
    finally:
        if not keep:
            shutil.rmtree(d, ignore_errors=True)


def main():
    ap = argparse.ArgumentParser()
    ap.add_argument("--prop", default="all")
    ap.add_argument("--repo", default=os.environ.get("VERIF_REPO", "/repo"))
    ap.add_argument("--jobs", type=int, default=8)
    ap.add_argument("--only", default="")
    ap.add_argument("--json", default="")
    a = ap.parse_args()
    binary = os.environ.get("GRPCHANLINT_BIN", os.path.join(V, "bin", "grpchanlint"))
    pat = "*" if a.prop == "all" else a.prop
    files = sorted(glob.glob(os.path.join(V, "checker/selftest/variants", pat, "*.json")))
    if a.only:
        files = [f for f in files if a.only in f]
    if not files:
        print("variants: none for", a.prop)
        return 0
    bad = 0
    rows = []
    with cf.ThreadPoolExecutor(max_workers=a.jobs) as ex:
        for name, st, msg in ex.map(lambda f: run_variant(f, a.repo, binary), files):
            print("variant %-55s %-11s %s" % (name, st, msg))
            rows.append({"variant": name, "status": st, "detail": msg[:200]})
            if st not in ("OK", "SKIP"):
                bad += 1
    if a.json:
        json.dump(rows, open(a.json, "w"))
    print("variants: %d run, %d not as expected" % (len(files), bad))
    return 2 if bad else 0


if __name__ == "__main__":
    sys.exit(main())
