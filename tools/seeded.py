#!/usr/bin/env python3
"""Evaluate / import a sub-agent mutant.

  tools/seeded.py eval <mutant-dir> [--props C17,C02]      # confirm + run checks, print verdict
  tools/seeded.py import <mutant-dir> <seeded-id>          # eval, then copy to /verif/seeded/<seeded-id>/
  tools/seeded.py check-all                                 # run every /verif/seeded/*/patch.diff against the checks (no tests)

A mutant dir holds patch.diff, demo_test.go (or demo files), meta.json
({"property","demo_place","demo_cmd",...}).  Confirmation = in a scratch git
worktree of /repo HEAD (outside /repo and /verif, removed afterwards):
patch applies, `go build ./...` ok, existing suite passes with the patch, the
demo FAILS with the patch and PASSES without it."""
import json, os, shutil, subprocess, sys, tempfile

V = os.path.dirname(os.path.dirname(os.path.abspath(__file__)))
ENV = dict(os.environ, GOFLAGS="-mod=mod", GOPROXY="off", GOSUMDB="off", GOTOOLCHAIN="local")
ENV.pop("GOWORK", None)


def sh(cmd, cwd, timeout=900):
    p = subprocess.run(cmd, cwd=cwd, shell=True, env=ENV, capture_output=True, text=True, timeout=timeout)
    return p.returncode, p.stdout + p.stderr


def worktree():
    d = tempfile.mkdtemp(prefix="grpchan-seeded.", dir=os.environ.get("TMPDIR", "/var/tmp"))
    os.rmdir(d)
    subprocess.check_call(["git", "-C", "/repo", "worktree", "add", "--detach", d, "HEAD"], stdout=subprocess.DEVNULL, stderr=subprocess.DEVNULL)
    return d


def rm_worktree(d):
    subprocess.call(["git", "-C", "/repo", "worktree", "remove", "--force", d], stdout=subprocess.DEVNULL, stderr=subprocess.DEVNULL)
    shutil.rmtree(d, ignore_errors=True)


def registered():
    out = subprocess.run([os.path.join(V, "bin/grpchanlint"), "-list"], capture_output=True, text=True).stdout.split()
    return out


BIN = os.environ.get("GRPCHANLINT_BIN", os.path.join(V, "bin/grpchanlint"))


def run_checks(repo, props):
    """One process for all properties (the program is loaded once); the violation lines are attributed to their
    property by the rule id they carry. A run that ends with a check error is repeated property by property."""
    import re
    fired = {}
    if len(props) > 1:
        r = subprocess.run([BIN, "-prop", ",".join(props), "-repo", repo, "-no-evidence", "-verif", V], capture_output=True, text=True)
        if r.returncode != 2:
            for l in (r.stdout + r.stderr).splitlines():
                m = re.search(r": \[(C\d\d)/[RT]\d+\] ", l)
                if m and m.group(1) in props:
                    fired.setdefault(m.group(1), []).append(l)
            return fired
    for p in props:
        r = subprocess.run([BIN, "-prop", p, "-repo", repo, "-no-evidence", "-verif", V],
                           capture_output=True, text=True)
        lines = [l for l in (r.stdout + r.stderr).splitlines() if ": [" in l and "] " in l]
        if r.returncode == 2:
            fired[p] = ["CHECK-ERROR: " + (r.stdout + r.stderr).strip().splitlines()[-1][:300]]
        elif r.returncode == 1:
            fired[p] = lines
    return fired


def copytree_of_working_tree():
    repo = os.environ.get("VERIF_REPO", "/repo")
    d = tempfile.mkdtemp(prefix="grpchan-seeded.", dir=os.environ.get("TMPDIR", "/var/tmp"))
    subprocess.check_call(["rsync", "-a", "--exclude", ".git", repo.rstrip("/") + "/", d + "/"])
    return d


def evaluate(mdir, props=None, tests=True):
    meta = json.load(open(os.path.join(mdir, "meta.json")))
    res = {"property": meta.get("property"), "confirm": {}}
    if not tests:
        # checker self-test: a scratch copy of the CURRENT working tree (not HEAD)
        wt = copytree_of_working_tree()
        try:
            patch = os.path.abspath(os.path.join(mdir, "patch.diff"))
            rc, out = sh("git apply --whitespace=nowarn %s" % patch, wt)
            res["confirm"]["applies"] = (rc == 0)
            if rc != 0:
                return res
            res["fired"] = run_checks(wt, props or registered())
            res["caught_by_own_property"] = bool(res["fired"].get(meta.get("property")))
            return res
        finally:
            shutil.rmtree(wt, ignore_errors=True)
    wt = worktree()
    try:
        patch = os.path.abspath(os.path.join(mdir, "patch.diff"))
        demo_place = meta.get("demo_place", "")
        import re
        toks = re.findall(r"[\w./-]*_test\.go", demo_place)
        if toks:
            rels = [t for t in toks if not t.startswith("/")]
            tok = rels[0] if rels else toks[0]
            m = re.match(r"/tmp/mut/[^/]+/(.*)", tok)
            demo_place = m.group(1) if m else tok.lstrip("/")
        demo_src = None
        for cand in ("demo_test.go", "demo.go"):
            if os.path.exists(os.path.join(mdir, cand)):
                demo_src = os.path.join(mdir, cand)
        demo_cmd = meta.get("demo_cmd", "")

        def place_demo():
            if demo_src and demo_place:
                dst = os.path.join(wt, demo_place)
                if os.path.isdir(dst) or demo_place.endswith("/"):
                    dst = os.path.join(dst, "zz_demo_test.go")
                os.makedirs(os.path.dirname(dst), exist_ok=True)
                shutil.copy(demo_src, dst)
                return dst
            return None

        if tests:
            # clean tree: demo passes
            dp = place_demo()
            rc, out = sh(demo_cmd, wt)
            res["confirm"]["demo_passes_clean"] = (rc == 0)
            if rc != 0:
                res["confirm"]["demo_clean_out"] = out[-800:]
        rc, out = sh("git apply --whitespace=nowarn %s" % patch, wt)
        res["confirm"]["applies"] = (rc == 0)
        if rc != 0:
            res["confirm"]["apply_out"] = out[-500:]
            return res
        if tests:
            rc, out = sh(demo_cmd, wt)
            res["confirm"]["demo_fails_mutant"] = (rc != 0)
            if dp:
                os.remove(dp)
            rc, out = sh("go build ./... && go vet ./... >/dev/null 2>&1; go build ./...", wt)
            res["confirm"]["builds"] = (rc == 0)
            rc, out = sh("go test -count=1 ./... 2>&1 | tail -15", wt)
            res["confirm"]["suite_passes"] = ("FAIL" not in out and rc == 0)
            if not res["confirm"]["suite_passes"]:
                res["confirm"]["suite_out"] = out[-800:]
        sh("git checkout -- go.sum go.mod", wt)
        ps = props or registered()
        res["fired"] = run_checks(wt, ps)
        res["caught_by_own_property"] = bool(res["fired"].get(meta.get("property")))
    finally:
        rm_worktree(wt)
    return res


def main():
    if len(sys.argv) < 2:
        print(__doc__)
        return 2
    cmd = sys.argv[1]
    if cmd in ("eval", "import"):
        mdir = sys.argv[2]
        props = None
        if "--props" in sys.argv:
            props = sys.argv[sys.argv.index("--props") + 1].split(",")
        res = evaluate(mdir, props)
        print(json.dumps(res, indent=1)[:6000])
        if cmd == "import":
            sid = sys.argv[3]
            ok = all(res["confirm"].get(k) for k in ("demo_passes_clean", "applies", "demo_fails_mutant", "builds", "suite_passes"))
            if not ok:
                print("NOT IMPORTED: confirmation failed")
                return 1
            dst = os.path.join(V, "seeded", sid)
            os.makedirs(dst, exist_ok=True)
            for f in os.listdir(mdir):
                shutil.copy(os.path.join(mdir, f), os.path.join(dst, f))
            meta = json.load(open(os.path.join(dst, "meta.json")))
            meta["confirmed"] = res["confirm"]
            meta["confirmed_how"] = "tools/seeded.py import: scratch git worktree of /repo HEAD; demo passes clean, fails with patch; go build ok; go test ./... passes with patch"
            meta["detected_by"] = {k: v[:3] for k, v in res.get("fired", {}).items()}
            json.dump(meta, open(os.path.join(dst, "meta.json"), "w"), indent=1)
            print("imported as", dst)
        return 0
    if cmd == "check":
        # tools/seeded.py check <Cxx> [out.json]: replay the seeded mutants of one property against its check
        prop = sys.argv[2]
        sd = os.path.join(V, "seeded")
        rows, missed = [], 0
        for sid in sorted(os.listdir(sd)):
            mdir = os.path.join(sd, sid)
            if not os.path.exists(os.path.join(mdir, "patch.diff")):
                continue
            meta = json.load(open(os.path.join(mdir, "meta.json")))
            if meta.get("property") != prop:
                continue
            res = evaluate(mdir, [prop], tests=False)
            fired = res.get("fired", {}).get(prop, [])
            ok = bool(fired) and not any(l.startswith("CHECK-ERROR") for l in fired)
            if meta.get("expect") == "not-decided" and res["confirm"].get("applies"):
                # a mutant kept on record although no rule over this repository's source decides it; the reason is
                # in meta.json (not_decided_reason) and in DESIGN.md. It does not count as a miss of the self-test.
                print("seeded %-34s NOT-DECIDED (documented)%s" % (sid, " — but reported now: update meta.json" if ok else ""))
                rows.append({"id": sid, "status": "not-decided", "reason": meta.get("not_decided_reason", "")})
                continue
            if not res["confirm"].get("applies"):
                print("seeded %-34s SKIP (patch no longer applies: tree moved on)" % sid)
                rows.append({"id": sid, "status": "skip"})
                continue
            print("seeded %-34s %s %s" % (sid, "CAUGHT" if ok else "MISSED", fired[0][:160] if fired else ""))
            rows.append({"id": sid, "status": "caught" if ok else "missed", "by": fired[:2]})
            if not ok:
                missed += 1
        if len(sys.argv) > 3:
            json.dump(rows, open(sys.argv[3], "w"))
        print("seeded: %d replayed for %s, %d missed" % (len(rows), prop, missed))
        return 2 if missed else 0
    if cmd == "check-all":
        props = registered()
        sd = os.path.join(V, "seeded")
        missed = 0
        import concurrent.futures as cf
        sids = [sid for sid in sorted(os.listdir(sd)) if os.path.exists(os.path.join(sd, sid, "patch.diff"))]
        jobs = int(os.environ.get("JOBS", "10"))
        with cf.ThreadPoolExecutor(max_workers=jobs) as ex:
            results = list(ex.map(lambda sid: evaluate(os.path.join(sd, sid), props, tests=False), sids))
        for sid, res in zip(sids, results):
            mdir = os.path.join(sd, sid)
            meta = json.load(open(os.path.join(mdir, "meta.json")))
            if not res["confirm"].get("applies"):
                print("%-28s SKIP (patch no longer applies)" % sid)
                missed += 1
                continue
            fired = res.get("fired", {})
            own = meta.get("property")
            st = "CAUGHT" if fired.get(own) else ("caught-by-other" if fired else "MISSED")
            if meta.get("expect") == "not-decided" and not fired.get(own):
                st = "NOT-DECIDED"
            elif not fired.get(own):
                missed += 1
            print("%-28s %-4s %-16s %s" % (sid, own, st, "; ".join("%s:%d" % (k, len(v)) for k, v in fired.items())))
            if "--update" in sys.argv:
                import re
                rules = sorted({m.group(1) for k, v in fired.items() for l in v for m in [re.search(r"\[(C\d\d/[RT]\d+)\]", l)] if m})
                meta["caught_by_now"] = ", ".join(rules)
                meta["initially_missed_by_own_check"] = not bool(meta.get("detected_by", {}).get(own))
                json.dump(meta, open(os.path.join(mdir, "meta.json"), "w"), indent=1)
            for k, v in fired.items():
                for l in v[:2]:
                    print("      ", l[:200])
        print("seeded: not caught by own property:", missed)
        return 0
    return 2


if __name__ == "__main__":
    sys.exit(main())
